// vrun builds the worker from /repo's current tree, runs one property's monitor
// in rlimited child workers under a CPU-time watchdog, merges what the workers
// observed, matches violations against known_findings.json, writes
// evidence/<id>.json and prints the verdict.
//
//	vrun <id> <quick|thorough>
//	vrun <id> --replay <file>
package main

import (
	"bytes"
	"encoding/binary"
	"encoding/json"
	"fmt"
	"io/ioutil"
	"os"
	"os/exec"
	"path/filepath"
	"regexp"
	"runtime"
	"sort"
	"strconv"
	"strings"
	"syscall"
	"time"

	"verif/internal/h"
)

type finding struct {
	Property    string `json:"property"`
	Key         string `json:"key"`
	Status      string `json:"status"` // known | fixed
	Description string `json:"description"`
	Witness     string `json:"witness,omitempty"`
	Commit      string `json:"commit,omitempty"`
	Site        string `json:"site,omitempty"`
}

type shardState struct {
	id        int
	part      int
	cmd       *exec.Cmd
	done      chan error
	running   bool
	finished  bool
	progF     *os.File
	lastCtr   uint64
	cpuAtChg  uint64
	killedFor string
	restarts  int
}

var (
	root    string
	workDir string
	raceIDs = map[string]bool{"C19": true}
)

func die(code int, format string, a ...interface{}) {
	fmt.Fprintf(os.Stderr, format+"\n", a...)
	os.Exit(code)
}

func main() {
	if len(os.Args) < 3 {
		die(2, "usage: vrun <id> <quick|thorough> | vrun <id> --replay <file>")
	}
	var err error
	root, err = os.Getwd()
	if err != nil {
		die(2, "getwd: %v", err)
	}
	id := os.Args[1]
	seed := uint64(1)
	if s := os.Getenv("VERIF_SEED"); s != "" {
		v, err := strconv.ParseInt(s, 10, 64)
		if err != nil {
			die(2, "bad VERIF_SEED %q", s)
		}
		seed = uint64(v)
	}
	if os.Args[2] == "--replay" {
		if len(os.Args) < 4 {
			die(2, "usage: vrun <id> --replay <file>")
		}
		os.Exit(replay(id, os.Args[3]))
	}
	tier := os.Args[2]
	if tier != "quick" && tier != "thorough" {
		die(2, "tier must be quick or thorough")
	}
	os.Exit(run(id, tier, seed))
}

func goEnv() []string {
	env := os.Environ()
	env = append(env, "GOFLAGS=-mod=mod", "GOPROXY=off", "GOSUMDB=off", "GOTOOLCHAIN=local")
	return env
}

var totalRestarts int

// build compiles the worker against the library tree (default /repo).
func build(race bool) (string, error) {
	bin := filepath.Join(root, "bin", "vmon")
	args := []string{"build", "-tags", "verif"}
	if race {
		bin += "-race"
		args = append(args, "-race")
	}
	if repo := os.Getenv("VERIF_REPO"); repo != "" {
		// self-test only: compile against a scratch copy of the library
		gm, err := ioutil.ReadFile(filepath.Join(root, "go.mod"))
		if err != nil {
			return "", err
		}
		alt := strings.Replace(string(gm), "=> /repo", "=> "+repo, 1)
		tag := fmt.Sprintf("%x", h.HashString(repo))
		altMod := filepath.Join(root, "bin", "alt-"+tag+".mod")
		os.MkdirAll(filepath.Join(root, "bin"), 0755)
		if err := ioutil.WriteFile(altMod, []byte(alt), 0644); err != nil {
			return "", err
		}
		gs, _ := ioutil.ReadFile(filepath.Join(root, "go.sum"))
		ioutil.WriteFile(filepath.Join(root, "bin", "alt-"+tag+".sum"), gs, 0644)
		args = append(args, "-modfile="+altMod)
		bin += "-" + tag
	}
	args = append(args, "-o", bin, "./cmd/vmon")
	cmd := exec.Command("go", args...)
	cmd.Dir = root
	cmd.Env = goEnv()
	out, err := cmd.CombinedOutput()
	if err != nil {
		return "", fmt.Errorf("go %s: %v\n%s", strings.Join(args, " "), err, out)
	}
	return bin, nil
}

// runtimeOnlyCrash reports a worker log that starts with a memory fault (SIGSEGV, SIGBUS) whose running goroutine has no
// frame of github.com/paulmach/orb on its stack.
func runtimeOnlyCrash(log string) bool {
	if !strings.HasPrefix(log, "SIGSEGV") && !strings.HasPrefix(log, "SIGBUS") && !strings.Contains(head1(log), "unexpected signal") {
		return false
	}
	i := strings.Index(log, "[running]:")
	if i < 0 {
		return false
	}
	stack := log[i:]
	if j := strings.Index(stack, "\n\n"); j >= 0 {
		stack = stack[:j]
	}
	return !strings.Contains(stack, "github.com/paulmach/orb")
}

func head1(s string) string {
	if i := strings.IndexByte(s, '\n'); i >= 0 {
		return s[:i]
	}
	return s
}

func cpuTicks(pid int) uint64 {
	b, err := ioutil.ReadFile(fmt.Sprintf("/proc/%d/stat", pid))
	if err != nil {
		return 0
	}
	// fields after the ")" that ends comm
	i := bytes.LastIndexByte(b, ')')
	if i < 0 {
		return 0
	}
	f := strings.Fields(string(b[i+1:]))
	if len(f) < 13 {
		return 0
	}
	ut, _ := strconv.ParseUint(f[11], 10, 64)
	st, _ := strconv.ParseUint(f[12], 10, 64)
	return ut + st
}

type progress struct {
	ctr    uint64
	sub    uint32
	idx    uint64
	budget uint32
	note   []byte
}

func readProgress(f *os.File, withNote bool) (p progress, ok bool) {
	var hdr [72]byte
	if _, err := f.ReadAt(hdr[:], 0); err != nil {
		return p, false
	}
	p.ctr = binary.LittleEndian.Uint64(hdr[0:])
	p.sub = binary.LittleEndian.Uint32(hdr[8:])
	p.idx = binary.LittleEndian.Uint64(hdr[16:])
	p.budget = binary.LittleEndian.Uint32(hdr[24:])
	if withNote {
		n := binary.LittleEndian.Uint32(hdr[64:])
		if n > 0 && n < 1<<20 {
			p.note = make([]byte, n)
			f.ReadAt(p.note, 72)
		}
	}
	return p, true
}

func startShard(s *shardState, bin, id, tier string, seed uint64, nshards int, race bool, resumeSub int, resumeIdx uint64) error {
	args := []string{"-prop", id, "-tier", tier, "-seed", strconv.FormatUint(seed, 10),
		"-shard", strconv.Itoa(s.id), "-nshards", strconv.Itoa(nshards), "-out", workDir,
		"-part", strconv.Itoa(s.part), "-resume-sub", strconv.Itoa(resumeSub), "-resume-idx", strconv.FormatUint(resumeIdx, 10)}
	if !race {
		args = append(args, "-rlimit-mb", "3072")
	}
	cmd := exec.Command(bin, args...)
	cmd.Dir = root
	logf, err := os.Create(filepath.Join(workDir, fmt.Sprintf("shard-%d.part%d.log", s.id, s.part)))
	if err != nil {
		return err
	}
	cmd.Stdout = logf
	cmd.Stderr = logf
	cmd.Env = append(os.Environ(), "GOTRACEBACK=all")
	if race {
		cmd.Env = append(cmd.Env, "GORACE=halt_on_error=0 log_path="+filepath.Join(workDir, "race"))
	}
	if err := cmd.Start(); err != nil {
		logf.Close()
		return err
	}
	logf.Close()
	s.cmd = cmd
	s.running = true
	s.killedFor = ""
	s.done = make(chan error, 1)
	s.lastCtr = ^uint64(0)
	s.cpuAtChg = 0
	go func() { s.done <- cmd.Wait() }()
	return nil
}

func tail(path string, n int) string {
	b, err := ioutil.ReadFile(path)
	if err != nil {
		return ""
	}
	if len(b) > n {
		b = b[len(b)-n:]
	}
	return string(b)
}

func head(path string, n int) string {
	b, err := ioutil.ReadFile(path)
	if err != nil {
		return ""
	}
	if len(b) > n {
		b = b[:n]
	}
	return string(b)
}

func run(id, tier string, seed uint64) int {
	t0 := time.Now()
	race := raceIDs[id]
	bin, err := build(race)
	if err != nil {
		fmt.Printf("BUILD-FAILED property=%s\n%v\n", id, err)
		return 2
	}
	workDir = filepath.Join(root, "work", fmt.Sprintf("%s-%s-%d", id, tier, os.Getpid()))
	os.RemoveAll(workDir)
	if err := os.MkdirAll(workDir, 0755); err != nil {
		die(2, "mkdir: %v", err)
	}
	keepWork := os.Getenv("VERIF_KEEP_WORK") != ""
	defer func() {
		if !keepWork {
			os.RemoveAll(workDir)
		}
	}()

	nshards := runtime.NumCPU()
	if nshards > 16 {
		nshards = 16
	}
	if race {
		nshards = 1 // the race workload uses all cores itself
	}
	if s := os.Getenv("VERIF_SHARDS"); s != "" {
		if v, err := strconv.Atoi(s); err == nil && v > 0 {
			nshards = v
		}
	}

	var extraViol []h.Viol
	inconclusive := []string{}
	shards := make([]*shardState, nshards)
	for i := range shards {
		shards[i] = &shardState{id: i}
		if err := startShard(shards[i], bin, id, tier, seed, nshards, race, -1, 0); err != nil {
			die(2, "start worker: %v", err)
		}
	}

	wallLimit := 20 * time.Minute
	if tier == "thorough" {
		wallLimit = 5 * time.Hour
	}
	if s := os.Getenv("VERIF_WALL_LIMIT_S"); s != "" {
		if v, err := strconv.Atoi(s); err == nil {
			wallLimit = time.Duration(v) * time.Second
		}
	}

	var meta h.Meta
	metaLoaded := false
	loadMeta := func() {
		if metaLoaded {
			return
		}
		b, err := ioutil.ReadFile(filepath.Join(workDir, "meta.json"))
		if err == nil && json.Unmarshal(b, &meta) == nil {
			metaLoaded = true
		}
	}

	for {
		active := 0
		for _, s := range shards {
			if !s.running {
				continue
			}
			active++
			select {
			case werr := <-s.done:
				s.running = false
				active--
				base := filepath.Join(workDir, fmt.Sprintf("shard-%d.part%d", s.id, s.part))
				if _, err := os.Stat(base + ".summary.json"); err == nil && werr == nil {
					s.finished = true
					continue
				}
				// the worker died: attribute to the case in the progress file
				loadMeta()
				var p progress
				okp := false
				if s.progF == nil {
					s.progF, _ = os.Open(filepath.Join(workDir, fmt.Sprintf("shard-%d.progress", s.id)))
				}
				if s.progF != nil {
					p, okp = readProgress(s.progF, true)
				}
				subName := "?"
				if okp && metaLoaded && int(p.sub) < len(meta.Subs) {
					subName = meta.Subs[p.sub].Name
				}
				reason := s.killedFor
				outside := false
				if reason == "" {
					reason = fmt.Sprintf("worker died: %v", werr)
					// a worker ended by SIGTERM / SIGKILL / SIGINT / SIGHUP that this runner did not send (it sends SIGQUIT) was
					// stopped from outside - an operator, another job's clean-up - and says nothing about the library: the case
					// is inconclusive, not a violation. (A crash of the worker itself - a runtime fatal error, SIGSEGV, SIGABRT -
					// still is one.)
					if ee, ok := werr.(*exec.ExitError); ok {
						if ws, ok := ee.Sys().(syscall.WaitStatus); ok && ws.Signaled() {
							switch ws.Signal() {
							case syscall.SIGTERM, syscall.SIGKILL, syscall.SIGINT, syscall.SIGHUP:
								outside = true
								inconclusive = append(inconclusive, fmt.Sprintf("shard %d: worker stopped from outside (%v) in sub-check %s case %d", s.id, ws.Signal(), subName, p.idx))
							}
						}
					}
				}
				logTxt := head(base+".log", 6000)
				if !outside && s.killedFor == "" && runtimeOnlyCrash(logTxt) {
					// SIGSEGV / SIGBUS raised while the running goroutine was inside the Go runtime with no frame of the library
					// anywhere on its stack (seen once: inside runtime.GOMAXPROCS of the race build, thorough run 8): a fault of
					// the tool chain under the monitor, not an observation about the library
					outside = true
					inconclusive = append(inconclusive, fmt.Sprintf("shard %d: worker crashed inside the Go runtime, no library frame on the running goroutine's stack, in sub-check %s case %d", s.id, subName, p.idx))
				}
				if !outside {
					extraViol = append(extraViol, h.Viol{Prop: id, Sub: subName, Idx: p.idx, Seed: seed, Tier: tier,
						Msg: reason, Detail: map[string]interface{}{"log_head": logTxt, "input_note_hex": fmt.Sprintf("%x", p.note), "input_note": string(p.note)}})
				}
				s.restarts++
				totalRestarts++
				if !okp || s.restarts > 40 || totalRestarts > 64 {
					// (the verdict is a violation already; more restarts only add more witnesses of the same kind)
					inconclusive = append(inconclusive, fmt.Sprintf("shard %d gave up after %d restarts (%d in this run)", s.id, s.restarts, totalRestarts))
					continue
				}
				s.part++
				if err := startShard(s, bin, id, tier, seed, nshards, race, int(p.sub), p.idx); err != nil {
					inconclusive = append(inconclusive, fmt.Sprintf("shard %d restart failed: %v", s.id, err))
				} else {
					active++
				}
			default:
				// watchdog on CPU time per case
				if s.progF == nil {
					s.progF, _ = os.Open(filepath.Join(workDir, fmt.Sprintf("shard-%d.progress", s.id)))
				}
				if s.progF == nil || s.killedFor != "" {
					continue
				}
				p, ok := readProgress(s.progF, false)
				if !ok {
					continue
				}
				cpu := cpuTicks(s.cmd.Process.Pid)
				if p.ctr != s.lastCtr {
					s.lastCtr = p.ctr
					s.cpuAtChg = cpu
					continue
				}
				budget := uint64(p.budget)
				if budget == 0 {
					budget = 20
				}
				if cpu > s.cpuAtChg && cpu-s.cpuAtChg > budget*100 {
					s.killedFor = fmt.Sprintf("case exceeded its CPU budget of %d s (did not terminate); worker stopped with SIGQUIT", budget)
					if os.Getenv("VERIF_DEBUG") != "" {
						fmt.Fprintf(os.Stderr, "watchdog: shard %d ctr=%d sub=%d idx=%d cpu=%d cpuAtChg=%d budget=%d\n", s.id, p.ctr, p.sub, p.idx, cpu, s.cpuAtChg, budget)
					}
					s.cmd.Process.Signal(syscall.SIGQUIT)
				}
			}
		}
		if active == 0 {
			break
		}
		if time.Since(t0) > wallLimit {
			for _, s := range shards {
				if s.running {
					s.cmd.Process.Kill()
				}
			}
			inconclusive = append(inconclusive, fmt.Sprintf("wall-clock watchdog (%v) stopped the run", wallLimit))
			break
		}
		time.Sleep(50 * time.Millisecond)
	}
	loadMeta()

	// ---- merge ----
	total := h.Summary{Counts: map[string]int64{}, Maxes: map[string]float64{}, MaxDetail: map[string]string{}, Samples: map[string][]json.RawMessage{}, ViolCounts: map[string]int64{}}
	subs := map[string]*struct{ Cases, Evals, Nontrivial uint64 }{}
	var viols []h.Viol
	hashSet := map[uint64]struct{}{}
	truncated := false
	files, _ := filepath.Glob(filepath.Join(workDir, "shard-*.summary.json"))
	sort.Strings(files)
	for _, f := range files {
		b, err := ioutil.ReadFile(f)
		if err != nil {
			continue
		}
		var s h.Summary
		if json.Unmarshal(b, &s) != nil {
			continue
		}
		total.Evals += s.Evals
		for k, v := range s.Counts {
			total.Counts[k] += v
		}
		for k, v := range s.Maxes {
			if old, ok := total.Maxes[k]; !ok || v > old {
				total.Maxes[k] = v
				total.MaxDetail[k] = s.MaxDetail[k]
			}
		}
		for k, v := range s.ViolCounts {
			total.ViolCounts[k] += v
		}
		for k, v := range s.Samples {
			if len(total.Samples[k]) < 2 {
				total.Samples[k] = append(total.Samples[k], v...)
			}
		}
		for k, v := range s.Subs {
			t := subs[k]
			if t == nil {
				t = &struct{ Cases, Evals, Nontrivial uint64 }{}
				subs[k] = t
			}
			t.Cases += v.Cases
			t.Evals += v.Evals
			t.Nontrivial += v.Nontrivial
		}
		if s.HashesFull {
			truncated = true
		}
		hb, err := ioutil.ReadFile(strings.TrimSuffix(f, ".summary.json") + ".hashes")
		if err == nil {
			for i := 0; i+8 <= len(hb); i += 8 {
				hashSet[binary.LittleEndian.Uint64(hb[i:])] = struct{}{}
			}
		}
	}
	vfiles, _ := filepath.Glob(filepath.Join(workDir, "shard-*.viol.jsonl"))
	sort.Strings(vfiles)
	for _, f := range vfiles {
		b, _ := ioutil.ReadFile(f)
		for _, line := range bytes.Split(b, []byte("\n")) {
			if len(line) == 0 {
				continue
			}
			var v h.Viol
			if json.Unmarshal(line, &v) == nil {
				viols = append(viols, v)
			}
		}
	}
	for _, v := range extraViol {
		viols = append(viols, v)
		total.ViolCounts["_unclassified:"+v.Sub]++
	}
	for _, s := range shards {
		if !s.finished {
			inconclusive = append(inconclusive, fmt.Sprintf("shard %d did not finish", s.id))
		}
	}

	// ---- race reports ----
	raceBlocks := 0
	raceDistinct := 0
	if race {
		rv, nb := parseRaceLogs(id, tier, seed)
		raceBlocks = nb
		raceDistinct = len(rv)
		for _, v := range rv {
			viols = append(viols, v)
			total.ViolCounts["_unclassified:race-detector"]++
		}
	}

	// ---- coverage-guided extension (C05, thorough) ----
	var fuzzExecs map[string]int64
	if id == "C05" && (tier == "thorough" || os.Getenv("VERIF_FUZZ") != "") {
		fv, fe := fuzzPass(id, tier, seed)
		fuzzExecs = fe
		for _, v := range fv {
			viols = append(viols, v)
			total.ViolCounts["_unclassified:"+v.Sub]++
		}
	}

	// ---- known findings ----
	known := map[string]finding{}
	var fl struct {
		Findings []finding `json:"findings"`
	}
	if b, err := ioutil.ReadFile(filepath.Join(root, "known_findings.json")); err == nil {
		if err := json.Unmarshal(b, &fl); err != nil {
			die(2, "known_findings.json: %v", err)
		}
		for _, f := range fl.Findings {
			if f.Status == "known" && f.Property == id {
				known[f.Key] = f
			}
		}
	}

	sort.SliceStable(viols, func(i, j int) bool {
		if viols[i].Sub != viols[j].Sub {
			return viols[i].Sub < viols[j].Sub
		}
		return viols[i].Idx < viols[j].Idx
	})
	replayDir := filepath.Join(root, "replays", id)
	knownMatched := map[string]int64{}
	unclassified := int64(0)
	for k, n := range total.ViolCounts {
		if _, ok := known[k]; ok && !strings.HasPrefix(k, "_unclassified:") {
			knownMatched[k] = n
		} else {
			unclassified += n
		}
	}
	var violLines []string
	written := map[string]int{}
	seenPath := map[string]bool{}
	totalUnk := 0
	for _, v := range viols {
		_, isKnown := known[v.Key]
		limit := 3
		wk := v.Key
		if isKnown {
			limit = 2
		} else {
			m := v.Msg
			if len(m) > 50 {
				m = m[:50]
			}
			wk = v.Key + "|" + v.Sub + "|" + m
			if totalUnk >= 30 {
				continue
			}
		}
		if written[wk] >= limit {
			continue
		}
		name := fmt.Sprintf("%s-%s-%d", tier, sanitize(v.Sub), v.Idx)
		if v.Key != "" {
			name += "-" + sanitize(v.Key)
		}
		path := filepath.Join(replayDir, name+".json")
		if seenPath[path] {
			continue
		}
		seenPath[path] = true
		written[wk]++
		os.MkdirAll(replayDir, 0755)
		b, _ := json.MarshalIndent(v, "", " ")
		ioutil.WriteFile(path, b, 0644)
		if !isKnown {
			totalUnk++
			rel, _ := filepath.Rel(root, path)
			violLines = append(violLines, fmt.Sprintf("VIOLATION property=%s replay=%s  # %s", id, rel, oneLine(v.Msg)))
		}
	}

	// ---- evidence ----
	distinct := uint64(len(hashSet))
	rule := meta.Rule
	if truncated {
		rule += " [distinct count is a lower bound: a worker's hash set reached its cap]"
	}
	allExh := metaLoaded && len(meta.Subs) > 0
	subEv := []map[string]interface{}{}
	for _, ms := range meta.Subs {
		st := subs[ms.Name]
		e := map[string]interface{}{"name": ms.Name, "cases_planned": ms.Cases, "exhaustive": ms.Exhaustive}
		if st != nil {
			e["cases_run"] = st.Cases
			e["evaluations"] = st.Evals
			e["nontrivial_marks"] = st.Nontrivial
			if st.Cases < ms.Cases {
				inconclusive = append(inconclusive, fmt.Sprintf("sub-check %s ran %d of %d cases", ms.Name, st.Cases, ms.Cases))
			}
		} else if ms.Cases > 0 {
			inconclusive = append(inconclusive, fmt.Sprintf("sub-check %s did not run", ms.Name))
		}
		if !ms.Exhaustive {
			allExh = false
		}
		subEv = append(subEv, e)
	}
	if metaLoaded && distinct < meta.MinNontrivial {
		inconclusive = append(inconclusive, fmt.Sprintf("only %d distinct non-trivial cases observed, minimum for a verdict is %d", distinct, meta.MinNontrivial))
	}
	if !metaLoaded {
		inconclusive = append(inconclusive, "no meta data from worker 0")
	}
	var samples []json.RawMessage
	var sk []string
	for k := range total.Samples {
		sk = append(sk, k)
	}
	sort.Strings(sk)
	for round := 0; round < 2 && len(samples) < 10; round++ {
		for _, k := range sk {
			if round < len(total.Samples[k]) && len(samples) < 10 {
				samples = append(samples, total.Samples[k][round])
			}
		}
	}
	if len(samples) == 0 {
		samples = append(samples, json.RawMessage(`"no sample recorded"`))
	}
	cov := map[string]interface{}{
		"evaluations":             total.Evals,
		"distinct_nontrivial":     distinct,
		"rule":                    rule,
		"samples":                 samples,
		"exhaustive":              allExh,
		"sub_checks":              subEv,
		"counts":                  total.Counts,
		"maxima":                  total.Maxes,
		"maxima_where":            total.MaxDetail,
		"known_findings_matched":  knownMatched,
		"unclassified_violations": unclassified,
		"inconclusive":            len(inconclusive) > 0,
		"inconclusive_reasons":    inconclusive,
		"workers":                 nshards,
	}
	if fuzzExecs != nil {
		cov["fuzz_executions"] = fuzzExecs
		cov["fuzz_note"] = "go test -fuzz on the five C05 targets with a fixed execution count; coverage-guided, therefore not deterministic in the inputs it tries"
	}
	if race {
		cov["race_report_blocks"] = raceBlocks
		cov["race_reports_distinct"] = raceDistinct
	}
	if tier == "thorough" || os.Getenv("VERIF_COVER") != "" {
		ac, cerr := coverPass(id, seed)
		if cerr != "" {
			cov["anchor_statement_coverage_error"] = cerr
		} else {
			cov["anchor_statement_coverage"] = ac
			cov["anchor_statement_coverage_note"] = "statements of the property's anchor files reached by the quick workload under go build -cover (observation device, decides nothing)"
		}
	}
	ev := map[string]interface{}{
		"property_id": id,
		"tier":        tier,
		"seed":        int64(seed),
		"level":       "exploration",
		"coverage":    cov,
		"assumptions": meta.Assumptions,
		"wall_s":      time.Since(t0).Seconds(),
		"violations":  unclassified,
	}
	if ev["assumptions"] == nil {
		ev["assumptions"] = []string{}
	}
	eb, _ := json.MarshalIndent(ev, "", " ")
	os.MkdirAll(filepath.Join(root, "evidence"), 0755)
	if err := ioutil.WriteFile(filepath.Join(root, "evidence", id+".json"), eb, 0644); err != nil {
		die(2, "write evidence: %v", err)
	}

	// ---- verdict ----
	fmt.Printf("%s %s seed=%d: %d evaluations, %d distinct non-trivial cases, %d workers, %.1fs\n", id, tier, seed, total.Evals, distinct, nshards, time.Since(t0).Seconds())
	var kk []string
	for k := range knownMatched {
		kk = append(kk, k)
	}
	sort.Strings(kk)
	for _, k := range kk {
		fmt.Printf("KNOWN-FINDING: property=%s %s: %s (matched %d times in this run)\n", id, k, oneLine(known[k].Description), knownMatched[k])
	}
	for _, r := range inconclusive {
		fmt.Printf("INCONCLUSIVE property=%s %s\n", id, r)
	}
	if unclassified > 0 {
		for _, l := range violLines {
			fmt.Println(l)
		}
		fmt.Printf("%d violation(s) not covered by known_findings.json\n", unclassified)
		keepWork = keepWork || os.Getenv("VERIF_KEEP_WORK_ON_FAIL") != ""
		return 1
	}
	fmt.Printf("HELD property=%s on everything explored\n", id)
	return 0
}

// fuzzPass is the coverage-guided extension of C05 (thorough tier only): Go's native fuzzer runs every
// family's target for a fixed number of executions; a crasher is a violation carrying the input.
func fuzzPass(id, tier string, seed uint64) ([]h.Viol, map[string]int64) {
	execs := map[string]int64{}
	var viols []h.Viol
	n := "2000000x"
	if v := os.Getenv("VERIF_FUZZ_EXECS"); v != "" {
		n = v + "x"
	}
	re := regexp.MustCompile(`execs: (\d+)`)
	for _, target := range []string{"FuzzWKB", "FuzzWKT", "FuzzJSON", "FuzzBSON", "FuzzMVT"} {
		cache := filepath.Join(workDir, "fuzzcache")
		script := fmt.Sprintf("ulimit -v 12000000; exec go test -tags verif -run '^$' -fuzz '^%s$' -fuzztime %s ./fuzz -test.fuzzcachedir %s", target, n, cache)
		cmd := exec.Command("bash", "-c", script)
		cmd.Dir = root
		cmd.Env = goEnv()
		out, err := cmd.CombinedOutput()
		if m := re.FindAllStringSubmatch(string(out), -1); len(m) > 0 {
			execs[target], _ = strconv.ParseInt(m[len(m)-1][1], 10, 64)
		}
		if err != nil {
			txt := string(out)
			if len(txt) > 6000 {
				txt = txt[len(txt)-6000:]
			}
			detail := map[string]interface{}{"go_test_output_tail": txt}
			// move the crasher out of the package's testdata so it is kept with the replays, not in the source tree
			if files, _ := filepath.Glob(filepath.Join(root, "fuzz", "testdata", "fuzz", target, "*")); len(files) > 0 {
				b, _ := ioutil.ReadFile(files[0])
				detail["failing_input_file_content"] = string(b)
				for _, f := range files {
					os.Remove(f)
				}
			}
			viols = append(viols, h.Viol{Prop: id, Sub: "fuzz-" + target, Idx: uint64(len(viols)), Seed: seed, Tier: tier, Msg: "coverage-guided fuzzing found a failing input (" + target + ")", Detail: detail})
		}
	}
	os.RemoveAll(filepath.Join(root, "fuzz", "testdata"))
	return viols, execs
}

// coverPass re-runs the quick workload of the property under Go's coverage instrumentation
// (go build -cover -coverpkg=<library>) and reports, for the property's anchor files, how many
// statements the monitors' workload actually reached. Observation only: it decides nothing.
func coverPass(id string, seed uint64) (map[string]map[string]int, string) {
	bin := filepath.Join(root, "bin", "vmon-cover")
	args := []string{"build", "-tags", "verif", "-cover", "-coverpkg=github.com/paulmach/orb/...,verif/...", "-o", bin, "./cmd/vmon"}
	cmd := exec.Command("go", args...)
	cmd.Dir = root
	cmd.Env = goEnv()
	if out, err := cmd.CombinedOutput(); err != nil {
		return nil, fmt.Sprintf("cover build failed: %v %s", err, out)
	}
	covDir := filepath.Join(workDir, "cov")
	outDir := filepath.Join(workDir, "cov-out")
	os.MkdirAll(covDir, 0755)
	os.MkdirAll(outDir, 0755)
	n := 8
	if raceIDs[id] {
		n = 1
	}
	var cmds []*exec.Cmd
	for i := 0; i < n; i++ {
		c := exec.Command(bin, "-prop", id, "-tier", "quick", "-seed", strconv.FormatUint(seed, 10), "-shard", strconv.Itoa(i), "-nshards", strconv.Itoa(n), "-out", outDir, "-rlimit-mb", "4096")
		c.Dir = root
		c.Env = append(os.Environ(), "GOCOVERDIR="+covDir)
		if err := c.Start(); err == nil {
			cmds = append(cmds, c)
		}
	}
	done := make(chan bool, len(cmds))
	for _, c := range cmds {
		go func(c *exec.Cmd) { c.Wait(); done <- true }(c)
	}
	deadline := time.After(15 * time.Minute)
	for range cmds {
		select {
		case <-done:
		case <-deadline:
			for _, c := range cmds {
				c.Process.Kill()
			}
			return nil, "cover pass timed out"
		}
	}
	txt := filepath.Join(workDir, "cov.txt")
	cv := exec.Command("go", "tool", "covdata", "textfmt", "-i="+covDir, "-o", txt)
	cv.Env = goEnv()
	if out, err := cv.CombinedOutput(); err != nil {
		return nil, fmt.Sprintf("covdata failed: %v %s", err, out)
	}
	// anchors of the property
	anchors := map[string]bool{}
	if pb, err := ioutil.ReadFile(filepath.Join(root, "properties.jsonl")); err == nil {
		for _, line := range bytes.Split(pb, []byte("\n")) {
			var pr struct {
				ID      string `json:"id"`
				Anchors struct {
					Files []string `json:"files"`
				} `json:"anchors"`
			}
			if json.Unmarshal(line, &pr) == nil && pr.ID == id {
				for _, f := range pr.Anchors.Files {
					anchors[f] = true
				}
			}
		}
	}
	res := map[string]map[string]int{}
	b, _ := ioutil.ReadFile(txt)
	for _, line := range strings.Split(string(b), "\n") {
		// github.com/paulmach/orb/clip/clip.go:12.2,14.3 2 1
		const pfx = "github.com/paulmach/orb/"
		if !strings.HasPrefix(line, pfx) {
			continue
		}
		colon := strings.Index(line, ":")
		f := strings.Fields(line)
		if colon < 0 || len(f) != 3 {
			continue
		}
		file := line[len(pfx):colon]
		if !anchors[file] {
			continue
		}
		stmts, _ := strconv.Atoi(f[1])
		cnt, _ := strconv.Atoi(f[2])
		m := res[file]
		if m == nil {
			m = map[string]int{}
			res[file] = m
		}
		m["statements"] += stmts
		if cnt > 0 {
			m["reached"] += stmts
		}
	}
	return res, ""
}

func oneLine(s string) string {
	s = strings.Replace(s, "\n", " ", -1)
	if len(s) > 200 {
		s = s[:200] + "…"
	}
	return s
}

var sanRe = regexp.MustCompile(`[^A-Za-z0-9_.-]+`)

func sanitize(s string) string { return sanRe.ReplaceAllString(s, "_") }

// parseRaceLogs reads the race detector's log files, splits them into report
// blocks and de-duplicates them by the pair of outermost non-runtime frames.
func parseRaceLogs(id, tier string, seed uint64) ([]h.Viol, int) {
	files, _ := filepath.Glob(filepath.Join(workDir, "race.*"))
	seen := map[string]bool{}
	var out []h.Viol
	blocks := 0
	for _, f := range files {
		b, _ := ioutil.ReadFile(f)
		for _, blk := range strings.Split(string(b), "==================") {
			if !strings.Contains(blk, "WARNING: DATA RACE") {
				continue
			}
			blocks++
			key := raceKey(blk)
			if seen[key] {
				continue
			}
			seen[key] = true
			if len(blk) > 6000 {
				blk = blk[:6000]
			}
			out = append(out, h.Viol{Prop: id, Sub: "race-detector", Idx: uint64(len(out)), Seed: seed, Tier: tier,
				Msg: "Go race detector report: " + key, Detail: map[string]interface{}{"report": blk}})
		}
	}
	return out, blocks
}

func raceKey(blk string) string {
	// sections are separated by blank lines; the first two are the two accesses.
	var keys []string
	for _, sec := range strings.Split(strings.TrimSpace(blk), "\n\n") {
		lines := strings.Split(sec, "\n")
		if len(lines) == 0 {
			continue
		}
		hd := strings.TrimSpace(lines[0])
		if strings.HasPrefix(hd, "WARNING: DATA RACE") && len(lines) > 1 {
			hd = strings.TrimSpace(lines[1])
			lines = lines[1:]
		}
		if !(strings.HasPrefix(hd, "Read at") || strings.HasPrefix(hd, "Write at") || strings.HasPrefix(hd, "Previous")) {
			continue
		}
		inner, outer := "", ""
		for _, l := range lines[1:] {
			if strings.HasPrefix(l, "      ") || strings.TrimSpace(l) == "" {
				continue // file:line
			}
			fn := strings.TrimSpace(l)
			if i := strings.LastIndex(fn, "("); i > 0 {
				fn = fn[:i]
			}
			if strings.HasPrefix(fn, "runtime.") {
				continue
			}
			if inner == "" {
				inner = fn
			}
			outer = fn
		}
		kind := strings.Fields(hd)[0]
		if kind == "Previous" {
			kind = strings.Fields(hd)[1]
		}
		keys = append(keys, kind+":"+inner+"<-"+outer)
	}
	sort.Strings(keys)
	return strings.Join(keys, " | ")
}

func replay(id, file string) int {
	b, err := ioutil.ReadFile(file)
	if err != nil {
		die(2, "%v", err)
	}
	var v h.Viol
	if err := json.Unmarshal(b, &v); err != nil {
		die(2, "bad replay file: %v", err)
	}
	if v.Prop != id {
		die(2, "replay file is for %s, not %s", v.Prop, id)
	}
	bin, err := build(raceIDs[id])
	if err != nil {
		fmt.Printf("BUILD-FAILED property=%s\n%v\n", id, err)
		return 2
	}
	workDir = filepath.Join(root, "work", fmt.Sprintf("%s-replay-%d", id, os.Getpid()))
	os.MkdirAll(workDir, 0755)
	defer os.RemoveAll(workDir)
	fmt.Printf("recorded: sub=%s idx=%d seed=%d tier=%s key=%q\n  %s\n", v.Sub, v.Idx, v.Seed, v.Tier, v.Key, v.Msg)
	if strings.HasPrefix(v.Sub, "fuzz-") {
		fmt.Println("found by the coverage-guided extension; the failing input is in the record's detail (failing_input_file_content)")
		return 0
	}
	if v.Sub == "race-detector" || v.Sub == "?" {
		fmt.Println("this record has no single replayable case (race report or unattributed worker death); re-run the check instead")
		return 0
	}
	cmd := exec.Command(bin, "-prop", id, "-tier", v.Tier, "-seed", strconv.FormatUint(v.Seed, 10), "-out", workDir,
		"-replay-sub", v.Sub, "-replay-idx", strconv.FormatUint(v.Idx, 10))
	cmd.Stdout = os.Stdout
	cmd.Stderr = os.Stderr
	cmd.Dir = root
	if err := cmd.Run(); err != nil {
		fmt.Printf("worker ended with: %v\n", err)
		return 1
	}
	vb, _ := ioutil.ReadFile(filepath.Join(workDir, "shard-0.part0.viol.jsonl"))
	if len(bytes.TrimSpace(vb)) > 0 {
		return 1
	}
	return 0
}
