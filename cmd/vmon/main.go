// vmon is the worker binary: it runs (a shard of) one property's monitor against
// the library compiled from /repo and writes result files for vrun.
package main

import (
	"flag"
	"fmt"
	"os"
	"syscall"

	"verif/internal/h"
	_ "verif/mon"
)

func main() {
	var a h.WorkerArgs
	var seed uint64
	var rlimitMB int
	flag.StringVar(&a.Prop, "prop", "", "property id")
	flag.StringVar(&a.Tier, "tier", "quick", "quick|thorough")
	flag.Uint64Var(&seed, "seed", 1, "VERIF_SEED")
	flag.IntVar(&a.Shard, "shard", 0, "shard index")
	flag.IntVar(&a.NShards, "nshards", 1, "number of shards")
	flag.StringVar(&a.OutDir, "out", "", "result directory")
	flag.IntVar(&a.Part, "part", 0, "part number (restarts)")
	flag.IntVar(&a.ResumeSub, "resume-sub", -1, "resume after this sub index")
	flag.Uint64Var(&a.ResumeIdx, "resume-idx", 0, "resume after this case index")
	flag.StringVar(&a.ReplaySub, "replay-sub", "", "run only this sub-check")
	flag.Uint64Var(&a.ReplayIdx, "replay-idx", 0, "run only this case")
	flag.IntVar(&rlimitMB, "rlimit-mb", 0, "address space limit in MiB (0 = none)")
	list := flag.Bool("list", false, "list monitors")
	flag.Parse()
	if *list {
		for _, id := range h.IDs() {
			fmt.Println(id)
		}
		return
	}
	a.Seed = seed
	if rlimitMB > 0 {
		lim := syscall.Rlimit{Cur: uint64(rlimitMB) << 20, Max: uint64(rlimitMB) << 20}
		if err := syscall.Setrlimit(syscall.RLIMIT_AS, &lim); err != nil {
			fmt.Fprintln(os.Stderr, "setrlimit:", err)
		}
	}
	if err := h.RunWorker(a); err != nil {
		fmt.Fprintln(os.Stderr, "vmon:", err)
		os.Exit(3)
	}
}
