module verif

go 1.16

require (
	github.com/paulmach/orb v0.0.0
	go.mongodb.org/mongo-driver v1.11.4
)

replace github.com/paulmach/orb => /repo
