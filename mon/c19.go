package mon

import (
	"fmt"
	"math"
	"runtime"
	"sort"
	"sync"
	"sync/atomic"

	"github.com/paulmach/orb"
	"github.com/paulmach/orb/geojson"
	"github.com/paulmach/orb/quadtree"

	"verif/internal/h"
)

// C19 — concurrent quadtree queries are race-free and see a consistent tree.
//
// Instruments: (1) the Go race detector (this monitor runs in the -race build,
// its reports are collected by the runner from the GORACE log files); (2) every
// concurrent answer is compared pointer-for-pointer with the answer the same
// query gave when run alone; (3) structure hash + contents before/after;
// (4) a hook inside the traversal counts events and yields under PRNG control.

type c19query struct {
	kind    int // 0 find 1 matching 2 knearest 3 knearestmatching 4 inbound 5 inboundmatching
	p       orb.Point
	k       int
	maxDist float64 // < 0: absent
	filter  int
	box     orb.Bound
	useBuf  int       // 0: nil buffer; 1: an empty per-goroutine buffer; 2: the goroutine's previous result, stale pointers included
	limits  []float64 // the distance limit as the caller's own slice (shared by all goroutines, which only read it)
}

var c19filters = []quadtree.FilterFunc{
	nil,
	func(p orb.Pointer) bool { return c19id(p)%2 == 0 },
	func(p orb.Pointer) bool { return c19id(p)%7 == 3 },
	func(p orb.Pointer) bool { return false }, // nothing qualifies: empty results
}

// stored values: plain points of the harness and, mixed in, the library's own orb.Pointer implementation
// (*geojson.Feature with a point geometry, a geometry collection, a bbox member): their Point() runs library code
// on every visit.
// a pointer type whose methods work on the nil pointer (as many Go types' do): a nil *c19nilable is a value like any
// other to the tree - Add only refuses the nil interface
type c19nilable struct{ pt orb.Point }

func (x *c19nilable) Point() orb.Point {
	if x == nil {
		return orb.Point{512, 512}
	}
	return x.pt
}

func c19id(p orb.Pointer) int {
	switch x := p.(type) {
	case *qitem:
		return x.id
	case *c19nilable:
		if x == nil {
			return 1000003
		}
		return -2
	case *geojson.Feature:
		return x.ID.(int)
	}
	return -1
}

func c19value(i int, p orb.Point, kind int) orb.Pointer {
	switch kind {
	case 1:
		f := geojson.NewFeature(p)
		f.ID = i
		return f
	case 2:
		f := geojson.NewFeature(orb.Collection{orb.MultiPoint{p}, p})
		f.ID = i
		return f
	case 3:
		f := geojson.NewFeature(orb.LineString{p, p})
		f.ID = i
		f.BBox = geojson.BBox{p[0], p[1], p[0], p[1]}
		return f
	}
	return &qitem{id: i, pt: p}
}

var c19stale orb.Pointer = &qitem{id: -7, pt: orb.Point{-1, -1}}

func c19run(t *quadtree.Quadtree, q *c19query, b []orb.Pointer) []orb.Pointer {
	switch q.kind {
	case 0:
		if r := t.Find(q.p); r != nil {
			return []orb.Pointer{r}
		}
		return nil
	case 1:
		if r := t.Matching(q.p, c19filters[q.filter]); r != nil {
			return []orb.Pointer{r}
		}
		return nil
	case 2:
		if q.limits != nil {
			return t.KNearest(b, q.p, q.k, q.limits...)
		}
		if q.maxDist >= 0 {
			return t.KNearest(b, q.p, q.k, q.maxDist)
		}
		return t.KNearest(b, q.p, q.k)
	case 3:
		if q.limits != nil {
			return t.KNearestMatching(b, q.p, q.k, c19filters[q.filter], q.limits...)
		}
		if q.maxDist >= 0 {
			return t.KNearestMatching(b, q.p, q.k, c19filters[q.filter], q.maxDist)
		}
		return t.KNearestMatching(b, q.p, q.k, c19filters[q.filter])
	case 4:
		return t.InBound(b, q.box)
	case 6:
		// a search whose filter gives up by panicking after it has accepted some candidates (the caller recovers): that
		// search has no answer; what it leaves behind must not reach any later search, on this tree or another
		func() {
			defer func() { recover() }()
			seen := 0
			t.Matching(q.p, func(p orb.Pointer) bool {
				seen++
				if seen > 1+q.k%3 {
					panic("filter gives up")
				}
				return true
			})
		}()
		return nil
	default:
		return t.InBoundMatching(b, q.box, c19filters[q.filter])
	}
}

var (
	c19events  uint64
	c19yields  uint64
	c19yieldPD uint64 // yield when mix(event) % 1024 < c19yieldPD
)

func c19hook() {
	e := atomic.AddUint64(&c19events, 1)
	pd := atomic.LoadUint64(&c19yieldPD)
	if pd != 0 && h.Mix(e, 0x5bd1e995)%1024 < pd {
		atomic.AddUint64(&c19yields, 1)
		runtime.Gosched()
	}
}

type c19span struct {
	g      int
	e0, e1 uint64
}

func init() {
	h.Register(&h.Monitor{
		ID:   "C19",
		Race: true,
		Rule: "configurations = (stored values: the harness's plain points, with *geojson.Feature values (point, collection and bbox variants) as every 3rd or 17th value in two thirds of the configurations; tree contents: empty / 1 / 7 / 1000 / 50000 points, uniform / clustered / all-duplicate / mid-line points, 0-90% of the points removed again) x (2..32 goroutines) x (GOMAXPROCS 1, 2, 16) x (yield probability inside the traversal 0, 1/64, 1/4); every goroutine replays a shuffled copy of one query list (Find, Matching, KNearest(Matching) with k in {1,3,16} with and without distance limit (limits from 0.001 to beyond the whole tree, +Inf), InBound(Matching); with a nil buffer, an empty per-goroutine buffer or the goroutine's previous result as the buffer; distance limits as scalars or as one shared slice passed with ...; some queries have empty results), each answer compared with the sequential answer. " +
			"non-trivial = configuration with at least one pair of queries from different goroutines overlapping in time (measured through the traversal hook's event counter); distinct = configuration index and repetition",
		MinNontrivial: h.Fixed(8, 200),
		Assumptions: []string{
			"race freedom is decided by the Go race detector on the executions produced (halt_on_error=0, every report block counted, de-duplicated by frame pair); it sees only the interleavings that happened",
			"the harness's own shared state is per-goroutine slots, atomics and a WaitGroup",
		},
		Subs: []h.Sub{
			{
				Name: "concurrent-readers", Count: h.Fixed(12, 400), Serial: true, BudgetSec: 300, BudgetSecThorough: 3600,
				Run: func(c *h.Ctx, idx uint64, r *h.Rand) {
					sizes := []int{0, 1, 7, 1000, 1000, 5000, 50000}
					n := sizes[int(idx)%len(sizes)]
					if c.Quick() && n > 5000 {
						n = 20000
					}
					shape := r.Intn(4)
					removeFrac := []float64{0, 0.3, 0.6, 0.9}[r.Intn(4)]
					if idx%3 == 0 {
						removeFrac = 0.6
					}
					G := []int{2, 4, 8, 16, 32}[int(idx/2)%5]
					procs := []int{1, 2, 16}[int(idx)%3]
					yieldPD := []uint64{0, 16, 256}[int(idx/3)%3]
					cfg := map[string]interface{}{"points": n, "shape": []string{"uniform", "clustered", "all-duplicate", "mid-lines"}[shape], "removed_fraction": removeFrac,
						"goroutines": G, "GOMAXPROCS": procs, "yield_per_1024": yieldPD}
					c.Note([]byte(sv(cfg)))

					b := orb.Bound{Min: orb.Point{0, 0}, Max: orb.Point{1024, 1024}}
					// two identical trees: the twin answers every query alone first (the oracle); the tree itself is
					// first touched by the concurrent readers, so state that is filled in lazily by the first queries
					// after building is exercised concurrently too
					tree, twin := quadtree.New(b), quadtree.New(b)
					items := make([]orb.Pointer, 0, n)
					featureEvery := []int{0, 3, 17}[r.Intn(3)] // no library values / every third / every 17th stored value
					for i := 0; i < n; i++ {
						var p orb.Point
						switch shape {
						case 0:
							p = orb.Point{r.Uniform(0, 1024), r.Uniform(0, 1024)}
						case 1:
							cx, cy := float64(r.Intn(8))*128+64, float64(r.Intn(8))*128+64
							p = orb.Point{cx + r.Norm()*6, cy + r.Norm()*6}
							if p[0] < 0 || p[0] > 1024 || p[1] < 0 || p[1] > 1024 {
								p = orb.Point{cx, cy}
							}
						case 2:
							p = orb.Point{300, 700}
							if n > 64 && i%8 != 0 { // deep duplicate chains are slow to build: mix in a few distinct points
								p = orb.Point{float64(r.Intn(4)) * 256, float64(r.Intn(4)) * 256}
							}
						default:
							p = orb.Point{float64(r.Intn(9)) * 128, float64(r.Intn(9)) * 128}
						}
						var it orb.Pointer = &qitem{id: i, pt: p}
						if featureEvery > 0 && i%featureEvery == 0 {
							it = c19value(i, p, 1+r.Intn(3))
							if it.Point() != p {
								c.Fail("", "harness: a feature value does not report the point it was built from", map[string]interface{}{"point": sv(p), "reported": sv(it.Point())})
								return
							}
						}
						if i == 3 && idx%2 == 1 {
							it = (*c19nilable)(nil) // one stored value is a nil pointer of a type that answers Point() all the same
							p = it.Point()
						}
						twin.Add(it)
						if err := tree.Add(it); err != nil {
							c.Fail("", "Add failed while building the tree", map[string]interface{}{"config": cfg, "point": sv(p), "err": err.Error()})
							return
						}
						items = append(items, it)
					}
					live := map[orb.Pointer]bool{}
					for _, it := range items {
						live[it] = true
					}
					for _, i := range r.Perm(len(items))[:int(removeFrac*float64(len(items)))] {
						it := items[i]
						twin.Remove(it, func(p orb.Pointer) bool { return p == it })
						if !tree.Remove(it, func(p orb.Pointer) bool { return p == it }) {
							c.Fail("", "Remove failed while building the tree", map[string]interface{}{"config": cfg})
							return
						}
						delete(live, it)
					}

					// query list
					nq := 400
					if c.Thorough() {
						nq = 1500
					}
					if n >= 5000 {
						nq /= 4
					}
					qs := make([]c19query, nq)
					for i := range qs {
						q := &qs[i]
						q.kind = r.Intn(6)
						if r.P(1, 10) {
							q.kind = 6
						}
						q.p = orb.Point{r.Uniform(-50, 1074), r.Uniform(-50, 1074)}
						if len(items) > 0 && r.Bool() {
							q.p = items[r.Intn(len(items))].Point()
						}
						q.k = []int{1, 3, 16}[r.Intn(3)]
						if r.P(1, 20) && (n < 5000 || r.P(1, 5)) {
							q.k = 1 << 17 // "everything", said with a huge k (rarer on large trees: every such answer is the whole tree, sorted)
						}
						q.maxDist = -1
						if r.P(1, 3) {
							// (the last four reach beyond the whole tree: a limit that excludes nothing)
							q.maxDist = []float64{0.001, 5, 40, 300, 2000, 1e9, math.MaxFloat32, math.Inf(1)}[r.Intn(8)]
						}
						q.filter = r.Intn(len(c19filters))
						w := []float64{0, 1, 30, 400}[r.Intn(4)]
						q.box = orb.Bound{Min: orb.Point{q.p[0] - w, q.p[1] - w}, Max: orb.Point{q.p[0] + w, q.p[1] + w}}
						if r.P(1, 12) {
							q.box = b // exactly the tree's own bound
						}
						q.useBuf = r.Intn(3)
						if q.maxDist >= 0 && r.Bool() {
							q.limits = []float64{q.maxDist}
						}
					}
					limitsBefore := make([][]float64, nq)
					for i := range qs {
						limitsBefore[i] = append([]float64(nil), qs[i].limits...)
					}
					limitsIntact := func() bool {
						for i := range qs {
							for j, v := range qs[i].limits {
								if math.Float64bits(v) != math.Float64bits(limitsBefore[i][j]) {
									return false
								}
							}
						}
						return true
					}
					pick := func(q *c19query, empty, last []orb.Pointer) []orb.Pointer {
						switch q.useBuf {
						case 1:
							return empty
						case 2:
							if len(last) == 0 {
								// nothing left over from an earlier answer: a buffer that still holds three pointers from elsewhere
								return []orb.Pointer{c19stale, c19stale, c19stale, nil, nil, nil, nil, nil}[:3]
							}
							return last
						}
						return nil
					}

					idf := func(p orb.Pointer) uint64 { return uint64(c19id(p)) + 1 }
					hash0 := tree.VerifHash(idf)

					// sequential answers (hook off)
					quadtree.VerifVisitHook = nil
					seq := make([][]orb.Pointer, nq)
					seqNil := make([]bool, nq)
					sbuf := make([]orb.Pointer, 0, 64)
					if twin.VerifHash(idf) != hash0 {
						c.Fail("", "harness: the twin tree differs from the tree after the same operations", map[string]interface{}{"config": cfg})
						return
					}
					var slast []orb.Pointer
					for i := range qs {
						res := c19run(twin, &qs[i], pick(&qs[i], sbuf, slast))
						seq[i] = append([]orb.Pointer(nil), res...)
						seqNil[i] = res == nil
						if len(live) == 0 && len(res) != 0 {
							c.Fail("", "a query on a tree that holds nothing returned pointers", map[string]interface{}{"config": cfg, "query": fmt.Sprintf("%+v", qs[i]), "returned": len(res)})
							return
						}
						if k := qs[i].kind; k == 1 || k == 3 || k == 5 {
							for _, p := range res {
								if f := c19filters[qs[i].filter]; f != nil && !f(p) {
									c.Fail("", "a matching query returned a pointer its filter does not accept", map[string]interface{}{"config": cfg, "query": fmt.Sprintf("%+v", qs[i]), "returned_id": c19id(p)})
									return
								}
							}
						}
						if qs[i].useBuf != 0 && qs[i].kind >= 2 && qs[i].kind != 6 {
							slast = res
						}
					}
					if !limitsIntact() {
						c.Fail("", "a sequential read-only query changed the caller's distance-limit slice", map[string]interface{}{"config": cfg})
						return
					}
					c.Evals(nq)
					if hs := twin.VerifHash(idf); hs != hash0 || twin.Bound() != b {
						c.Fail("", "the tree's structure or bound changed during sequential read-only queries", map[string]interface{}{"config": cfg, "bound_now": sv(twin.Bound())})
					}

					prev := runtime.GOMAXPROCS(procs)
					defer runtime.GOMAXPROCS(prev)
					reps := 2
					orders := map[uint64]bool{}
					var mismatches int64
					var firstMismatch atomic.Value
					for rep := 0; rep < reps; rep++ {
						atomic.StoreUint64(&c19yieldPD, yieldPD)
						quadtree.VerifVisitHook = c19hook
						bare := rep%2 == 0
						if bare {
							// every other repetition runs without the traversal hook: its shared event counter is an atomic, and the
							// race detector takes atomics as synchronisation, which orders accesses of different goroutines that the
							// library itself does not order - a race in the library would be hidden by the monitor's own bookkeeping
							quadtree.VerifVisitHook = nil
						}
						spans := make([][]c19span, G)
						perms := make([][]int, G)
						for g := 0; g < G; g++ {
							perms[g] = r.Perm(nq)
						}
						var wg sync.WaitGroup
						start := make(chan struct{})
						for g := 0; g < G; g++ {
							wg.Add(1)
							go func(g int) {
								defer wg.Done()
								buf := make([]orb.Pointer, 0, 64)
								var last []orb.Pointer
								my := make([]c19span, 0, nq)
								<-start
								for _, qi := range perms[g] {
									var e0, e1 uint64
									if !bare {
										e0 = atomic.LoadUint64(&c19events)
									}
									res := c19run(tree, &qs[qi], pick(&qs[qi], buf, last))
									if qs[qi].useBuf != 0 && qs[qi].kind >= 2 && qs[qi].kind != 6 {
										last = res
									}
									if !bare {
										e1 = atomic.LoadUint64(&c19events)
									}
									my = append(my, c19span{g, e0, e1})
									want := seq[qi]
									ok := len(res) == len(want)
									if qs[qi].useBuf != 2 && qs[qi].kind >= 2 {
										// with the same (nil or empty) buffer the form of "nothing" is the same too
										ok = ok && (res == nil) == (seqNil[qi])
									}
									if len(live) == 0 {
										ok = ok && len(res) == 0 // nothing can come out of a tree that holds nothing
									}
									for i := 0; ok && i < len(res); i++ {
										ok = res[i] == want[i]
									}
									if ok && qs[qi].useBuf == 0 && len(res) > 1 {
										// an answer given without a buffer belongs to the caller: reorder it in place; nobody else's
										// answer may notice
										for i, j := 0, len(res)-1; i < j; i, j = i+1, j-1 {
											res[i], res[j] = res[j], res[i]
										}
									}
									if !ok {
										if atomic.AddInt64(&mismatches, 1) == 1 {
											firstMismatch.Store(fmt.Sprintf("query %+v: concurrent answer has %d pointers, sequential %d (or differs in identity/order)", qs[qi], len(res), len(want)))
										}
									}
								}
								spans[g] = my
							}(g)
						}
						close(start)
						wg.Wait()
						quadtree.VerifVisitHook = nil
						c.Evals(G * nq)
						c.Count("concurrent_queries", int64(G*nq))

						// overlap: pairs of queries from different goroutines whose event intervals intersect
						var all []c19span
						for _, s := range spans {
							all = append(all, s...)
						}
						sort.Slice(all, func(i, j int) bool { return all[i].e0 < all[j].e0 })
						overlap := int64(0)
						var sig uint64
						for i, s := range all {
							if i < 256 {
								sig = h.Mix(sig, uint64(s.g))
							}
							for j := i + 1; j < len(all) && all[j].e0 < s.e1 && j < i+64; j++ {
								if all[j].g != s.g {
									overlap++
								}
							}
						}
						orders[sig] = true
						c.Count("overlapping_query_pairs", overlap)
						if overlap > 0 {
							c.Nontrivial(h.Mix(c.CaseHash(), uint64(rep)))
						}
					}
					c.Count("traversal_hook_events", int64(atomic.LoadUint64(&c19events)))
					c.Count("injected_yields", int64(atomic.LoadUint64(&c19yields)))
					c.Count("distinct_query_start_orders", int64(len(orders)))
					atomic.StoreUint64(&c19events, 0)
					atomic.StoreUint64(&c19yields, 0)
					if mismatches > 0 {
						fm, _ := firstMismatch.Load().(string)
						c.Fail("", "a concurrent query returned something different from the same query run alone", map[string]interface{}{"config": cfg, "mismatches": mismatches, "first": fm})
					}
					if !limitsIntact() {
						c.Fail("", "a concurrent read-only query changed the caller's distance-limit slice", map[string]interface{}{"config": cfg})
					}
					if hs := tree.VerifHash(idf); hs != hash0 || tree.Bound() != b {
						c.Fail("", "the tree's structure, contents or bound changed during concurrent read-only queries", map[string]interface{}{"config": cfg, "bound_now": sv(tree.Bound())})
					}
					got := tree.InBound(nil, b)
					okC := len(got) == len(live)
					for _, p := range got {
						okC = okC && live[p]
					}
					if !okC {
						c.Fail("", "the tree's contents changed during read-only queries", map[string]interface{}{"config": cfg, "before": len(live), "after": len(got)})
					}
					c.Sample(cfg)
				},
			},
		},
	})
}
