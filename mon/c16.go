package mon

import (
	_ "embed"
	"encoding/binary"
	"fmt"
	"math"
	"os"
	"sort"

	"github.com/paulmach/orb"
	"github.com/paulmach/orb/clip"
	"github.com/paulmach/orb/clip/smartclip"

	"verif/internal/exact"
	"verif/internal/gen"
	"verif/internal/h"
	"verif/internal/refmodel"
)

// C16 — smart clipping closes cut rings around the box with the asked winding.
//
// Oracle: exact even-odd membership of query points strictly inside the box, the
// area of the plain clip, exact winding signs. Contact configurations (a ring vertex
// on the box boundary, an edge through a box corner) are judged on an exhaustive
// small grid only, against a committed list of the cases that fail on the pinned tree.

//go:embed c16_grid_known.bin
var c16knownRaw []byte

var c16known map[uint64]bool

func c16loadKnown() {
	if c16known != nil {
		return
	}
	// format: uvarint deltas of the sorted case ids
	c16known = make(map[uint64]bool, len(c16knownRaw))
	id := uint64(0)
	for b := c16knownRaw; len(b) > 0; {
		d, n := binary.Uvarint(b)
		if n <= 0 {
			break
		}
		id += d
		c16known[id] = true
		b = b[n:]
	}
}

func orientOf(ring []P) orb.Orientation {
	switch exact.Area2(ring).Sign() {
	case 1:
		return orb.CCW
	case -1:
		return orb.CW
	}
	return 0
}

func mpToP(mp orb.MultiPolygon) [][][]P {
	out := make([][][]P, len(mp))
	for i, p := range mp {
		out[i] = polyToP(p)
	}
	return out
}

func inMulti(mp [][][]P, q P) bool {
	for _, p := range mp {
		if inPolyModel(p, q) {
			return true
		}
	}
	return false
}

// c16judge compares the smart-clipped output with the exact expectation. in = input polygons
// (each: outer ring first, closed rings), expArea = area of the plain clip of the region.
func c16judge(box [4]float64, in [][][]P, o orb.Orientation, out orb.MultiPolygon, expArea float64, queries []P, scale float64) (string, interface{}) {
	tol := 1e-9 * scale
	op := mpToP(out)
	area := 0.0
	for pi, pg := range op {
		if len(pg) == 0 {
			return "output polygon without rings", pi
		}
		for ri, rg := range pg {
			for _, v := range rg {
				if !inBoxTol(v, box, tol) {
					return "output vertex outside the box", map[string]interface{}{"polygon": pi, "ring": ri, "vertex": v}
				}
			}
			if len(rg) == 0 || rg[0] != rg[len(rg)-1] {
				return "output ring is not closed", map[string]interface{}{"polygon": pi, "ring": ri}
			}
			if ri == 0 && len(pg) == 1 && len(dedupe(rg)) <= 2 {
				// a polygon collapsed to a point or a segment on the box boundary encloses nothing: set aside
				// (like the zero-length pieces of line clipping); it must lie within the box, checked above
				continue
			}
			a := math.Abs(shoelace(rg))
			if ri == 0 {
				area += a
				if got := orientOf(rg); got != o {
					return "output outer ring does not wind in the requested direction", map[string]interface{}{"polygon": pi, "orientation": int(got), "requested": int(o)}
				}
			} else {
				area -= a
				for _, v := range rg {
					if inn, on := exact.Locate(pg[0], v); !inn && !on {
						return "a hole is not inside the polygon it is attached to", map[string]interface{}{"polygon": pi, "ring": ri, "vertex": v}
					}
				}
			}
		}
	}
	for _, q := range queries {
		far := true
		for _, pg := range in {
			for _, rg := range pg {
				far = far && farFrom(q, rg, 1e-6*scale)
			}
		}
		for _, pg := range op {
			for _, rg := range pg {
				far = far && farFrom(q, rg, 1e-6*scale)
			}
		}
		if !far {
			continue
		}
		if a, b := inMulti(in, q), inMulti(op, q); a != b {
			return "a point strictly inside the box is in the original region but not in the result (or vice versa)", map[string]interface{}{"point": q, "in_original": a, "in_result": b}
		}
	}
	if !(math.Abs(area-expArea) <= 1e-9*scale*scale) {
		return "total area differs from the area plain clipping gives", map[string]interface{}{"area": area, "plain_clip_area": expArea}
	}
	if !partsIndependent(out) {
		return "rings of the result share memory: appending to one ring overwrites another", sv(out)
	}
	return "", nil
}

func plainClipArea(box [4]float64, in [][][]P) float64 {
	b := boundOf(box[0], box[1], box[2], box[3])
	a := 0.0
	for _, pg := range in {
		for i, rg := range pg {
			x := math.Abs(shoelace(lsToP(clip.Ring(b, pToRing(rg)))))
			if i == 0 {
				a += x
			} else {
				a -= x
			}
		}
	}
	return a
}

func c16queries(r *h.Rand, box [4]float64, n int) []P {
	out := make([]P, n)
	for i := range out {
		out[i] = P{box[0] + r.Uniform(0.002, 0.998)*(box[2]-box[0]), box[1] + r.Uniform(0.002, 0.998)*(box[3]-box[1])}
	}
	return out
}

// contact: a ring vertex on the box boundary or an edge through a box corner (exact).
func c16contact(box [4]float64, ring []P) bool {
	corners := []P{{box[0], box[1]}, {box[2], box[1]}, {box[2], box[3]}, {box[0], box[3]}}
	for i, v := range ring {
		onX := (v[0] == box[0] || v[0] == box[2]) && v[1] >= box[1] && v[1] <= box[3]
		onY := (v[1] == box[1] || v[1] == box[3]) && v[0] >= box[0] && v[0] <= box[2]
		if onX || onY {
			return true
		}
		if i+1 < len(ring) {
			for _, cn := range corners {
				if exact.OnSegment(v, ring[i+1], cn) {
					return true
				}
			}
		}
	}
	return false
}

// cutByBox: the ring's boundary crosses the box boundary (positive length inside the open box, and not wholly inside).
func cutByBox(box [4]float64, ring []P) bool {
	if !crossesOpenBox(box, ring) {
		return false
	}
	for _, v := range ring {
		if !(v[0] > box[0] && v[0] < box[2] && v[1] > box[1] && v[1] < box[3]) {
			return true
		}
	}
	return false
}

func whollyInside(box [4]float64, ring []P) bool {
	for _, v := range ring {
		if !(v[0] > box[0] && v[0] < box[2] && v[1] > box[1] && v[1] < box[3]) {
			return false
		}
	}
	return true
}

func crossesOpenBox(box [4]float64, ring []P) bool {
	return len(clipLineOracle(box[0], box[1], box[2], box[3], ring, true)) > 0
}

var c16gridBoxes [][4]float64

// c16gridRing decodes a vertex sequence on the 6x6 grid: idx < 36^3 triangles, else quads.
func c16gridRing(idx uint64) []P {
	gp := func(k uint64) P { return P{float64(k % 6), float64(k / 6)} }
	if idx < 46656 {
		return []P{gp(idx / 1296), gp((idx / 36) % 36), gp(idx % 36)}
	}
	idx -= 46656
	return []P{gp(idx / 46656), gp((idx / 1296) % 36), gp((idx / 36) % 36), gp(idx % 36)}
}

var c16ret retained

const c16fixedBase = uint64(1) << 40

// c16fixedCase runs case idx of the fixed list (generated from idx alone, independent of VERIF_SEED).
func c16fixedCase(c *h.Ctx, idx uint64, dump map[uint64]bool) {
	r := h.NewRand(h.Mix(0xC16C0FFEE, idx))
	ring := gen.SimpleRing(r, r.Range(5, 9), float64(r.Range(3, 9)), float64(r.Range(3, 9)), 2, 8, 1)
	if ring == nil {
		return
	}
	o := orb.CCW
	if r.Bool() {
		o = orb.CW
		gen.Reverse(ring)
	}
	if r.Bool() { // start at another vertex
		k := r.Intn(len(ring) - 1)
		open := append(append([]P{}, ring[k:len(ring)-1]...), ring[:k]...)
		ring = append(open, open[0])
	}
	x0, y0 := float64(r.Range(0, 8)), float64(r.Range(0, 8))
	box := [4]float64{x0, y0, x0 + float64(r.Range(1, 8)), y0 + float64(r.Range(1, 8))}
	if !c16contact(box, ring) || !crossesOpenBox(box, ring) {
		return
	}
	id := c16fixedBase + idx
	out, pv, stack := c16runRing(box, ring, o)
	c.Eval()
	c.Count("fixed_list_contact_cases", 1)
	var msg string
	var det interface{}
	if pv != nil {
		msg, det = "smartclip.Ring panicked", map[string]interface{}{"panic": sv(pv), "stack": stack}
	} else {
		var qs []P
		for x := box[0] + 0.25; x < box[2]; x += 0.5 {
			for y := box[1] + 0.25; y < box[3]; y += 0.5 {
				qs = append(qs, P{x, y})
			}
		}
		in := [][][]P{{ring}}
		msg, det = c16judge(box, in, o, out, plainClipArea(box, in), qs, 16)
	}
	c.Nontrivial(h.Mix(0xf1, idx))
	if idx%9001 == 5 {
		c.Sample(map[string]interface{}{"box": box, "ring": ring, "orientation": int(o), "output": sv(out)})
	}
	if msg == "" {
		return
	}
	if dump != nil {
		dump[id] = true
	}
	key := ""
	if c16known[id] {
		key = "C16/boundary-contact"
	}
	c.Fail(key, msg, map[string]interface{}{"box": box, "ring": ring, "orientation": int(o), "output": sv(out), "detail": det, "contact_configuration": true, "fixed_list_case_id": idx})
}

// c16slotted builds the slotted square: outer ring counter-clockwise, holes (axis-parallel squares) clockwise, all closed;
// returns the rings and a box, after a random symmetry of the square.
func c16slotted(r *h.Rand) ([][]P, [4]float64) {
	k := r.Range(2, 5)
	ys := make([]float64, k+1)
	ys[0] = -5
	ys[k] = r.Uniform(12, 13.5)
	for j := 1; j < k; j++ {
		ys[j] = r.Uniform(-4, 11.5)
	}
	sort.Float64s(ys)
	for j := 1; j <= k; j++ {
		if ys[j]-ys[j-1] < 0.05 {
			return nil, [4]float64{}
		}
	}
	m := r.Range(1, 3)
	w := r.Uniform(0.2, 0.7)
	// centre lines: at every level the slots keep their left-to-right order with a gap
	cs := make([][]float64, m)
	for i := range cs {
		cs[i] = make([]float64, k+1)
	}
	for j := 0; j <= k; j++ {
		xs := make([]float64, m)
		for tries := 0; ; tries++ {
			for i := range xs {
				xs[i] = r.Uniform(-3, 13)
			}
			sort.Float64s(xs)
			ok := true
			for i := 1; i < m; i++ {
				ok = ok && xs[i]-xs[i-1] > 2*w+0.6
			}
			if ok {
				break
			}
			if tries > 50 {
				return nil, [4]float64{}
			}
		}
		for i := range xs {
			cs[i][j] = xs[i]
		}
	}
	outer := []P{{-5, -5}}
	for i := 0; i < m; i++ {
		for j := 0; j <= k; j++ {
			outer = append(outer, P{cs[i][j] - w, ys[j]})
		}
		for j := k; j >= 0; j-- {
			outer = append(outer, P{cs[i][j] + w, ys[j]})
		}
	}
	outer = append(outer, P{15, -5}, P{15, 15}, P{-5, 15}, P{-5, -5})
	centre := func(i int, y float64) float64 {
		for j := 1; j <= k; j++ {
			if y <= ys[j] {
				t := (y - ys[j-1]) / (ys[j] - ys[j-1])
				return cs[i][j-1] + t*(cs[i][j]-cs[i][j-1])
			}
		}
		return math.NaN() // above the slot's end
	}
	rings := [][]P{outer}
	type sq struct{ x, y, h float64 }
	var holes []sq
	for n := r.Range(2, 10); n > 0; n-- {
		hq := sq{r.Uniform(-1.5, 10.8), r.Uniform(-1.5, 10.8), r.Uniform(0.15, 0.7)}
		ok := hq.y+hq.h+0.1 < ys[k]
		levels := []float64{hq.y - 0.1, hq.y + hq.h + 0.1}
		for _, y := range ys {
			if y > levels[0] && y < levels[1] {
				levels = append(levels, y)
			}
		}
		for i := 0; i < m && ok; i++ {
			left, right := true, true
			for _, y := range levels {
				cx := centre(i, y)
				left = left && hq.x+hq.h+0.1 < cx-w
				right = right && hq.x-0.1 > cx+w
			}
			ok = left || right
		}
		for _, o := range holes {
			if hq.x < o.x+o.h+0.1 && o.x < hq.x+hq.h+0.1 && hq.y < o.y+o.h+0.1 && o.y < hq.y+hq.h+0.1 {
				ok = false
			}
		}
		if ok {
			holes = append(holes, hq)
			rings = append(rings, []P{{hq.x, hq.y}, {hq.x, hq.y + hq.h}, {hq.x + hq.h, hq.y + hq.h}, {hq.x + hq.h, hq.y}, {hq.x, hq.y}})
		}
	}
	box := [4]float64{r.Uniform(-0.5, 2), r.Uniform(-0.5, 2), r.Uniform(8, 10.5), r.Uniform(8, 10.5)}
	// a symmetry of the square about (5,5)
	swap, fx, fy := r.Bool(), r.Bool(), r.Bool()
	tr := func(p P) P {
		if fx {
			p[0] = 10 - p[0]
		}
		if fy {
			p[1] = 10 - p[1]
		}
		if swap {
			p[0], p[1] = p[1], p[0]
		}
		return p
	}
	flips := 0
	for _, f := range []bool{swap, fx, fy} {
		if f {
			flips++
		}
	}
	for _, rg := range rings {
		for i := range rg {
			rg[i] = tr(rg[i])
		}
		if flips%2 == 1 {
			gen.Reverse(rg)
		}
	}
	a, bq := tr(P{box[0], box[1]}), tr(P{box[2], box[3]})
	box = [4]float64{math.Min(a[0], bq[0]), math.Min(a[1], bq[1]), math.Max(a[0], bq[0]), math.Max(a[1], bq[1])}
	return rings, box
}

func c16runRing(box [4]float64, ring []P, o orb.Orientation) (out orb.MultiPolygon, pv interface{}, stack string) {
	pv, stack = h.Catch(func() {
		out = smartclip.Ring(boundOf(box[0], box[1], box[2], box[3]), pToRing(ring), o)
	})
	return
}

func init() {
	for x0 := 1; x0 <= 4; x0++ {
		for x1 := x0 + 1; x1 <= 4; x1++ {
			for y0 := 1; y0 <= 4; y0++ {
				for y1 := y0 + 1; y1 <= 4; y1++ {
					c16gridBoxes = append(c16gridBoxes, [4]float64{float64(x0), float64(y0), float64(x1), float64(y1)})
				}
			}
		}
	}

	// grid case: all 36 boxes for one vertex sequence
	gridCase := func(c *h.Ctx, seq uint64, dump map[uint64]bool) {
		open := c16gridRing(seq)
		if !exact.IsSimpleRing(open) {
			return
		}
		ring := gen.Close(open)
		o := orientOf(open)
		nontrivial := false
		for bi, box := range c16gridBoxes {
			if !crossesOpenBox(box, ring) {
				continue
			}
			nontrivial = true
			id := seq*64 + uint64(bi)
			out, pv, stack := c16runRing(box, ring, o)
			c.Eval()
			var msg string
			var det interface{}
			if pv != nil {
				msg, det = "smartclip.Ring panicked", map[string]interface{}{"panic": sv(pv), "stack": stack}
			} else {
				// query points: the half-step lattice offset by a quarter, inside the box
				var qs []P
				for x := box[0] + 0.25; x < box[2]; x += 0.5 {
					for y := box[1] + 0.25; y < box[3]; y += 0.5 {
						qs = append(qs, P{x, y})
					}
				}
				in := [][][]P{{ring}}
				msg, det = c16judge(box, in, o, out, plainClipArea(box, in), qs, 6)
			}
			contact := c16contact(box, ring)
			if contact {
				c.Count("grid_contact_cases", 1)
			} else {
				c.Count("grid_general_position_cases", 1)
			}
			if msg == "" {
				continue
			}
			if dump != nil {
				dump[id] = true
			}
			key := ""
			if c16known[id] {
				key = "C16/boundary-contact"
				c.Count("grid_known_failures_seen", 1)
				if !contact {
					key = "" // the list is only valid for contact configurations
				}
			}
			c.Fail(key, msg, map[string]interface{}{"box": box, "ring": ring, "orientation": int(o), "output": sv(out), "detail": det, "contact_configuration": contact, "grid_case_id": id})
		}
		if nontrivial {
			c.Nontrivial(h.Mix(0xc16, seq))
			if c.WantSample() && seq%5003 == 7 {
				c.Sample(map[string]interface{}{"ring": ring, "boxes": "all 36 sub-boxes of the inner 4x4 grid", "orientation": int(o)})
			}
		}
	}

	h.Register(&h.Monitor{
		ID: "C16",
		Rule: "general position: simple star rings of 3..12 float vertices (exact simplicity filter) wound as requested, both orientations, float boxes, rings whose boundary has a positive-length part in the open box; polygons with validated interior holes (opposite winding), multi-polygons of disjoint polygons, open input obtained by cutting such a ring outside the box; contact configurations (vertices on box edges and corners, edges through corners): exhaustively every simple triangle and (quick: a seed-chosen eighth of the) quadrilateral vertex sequences on the 6x6 integer grid against all 36 sub-boxes of the inner 4x4 grid, judged against the committed list of cases failing on the pinned tree. " +
			"non-trivial = the ring's boundary crosses the open box; distinct = hash of (box, vertices, orientation)",
		MinNontrivial: h.Fixed(20000, 300000),
		Assumptions: []string{
			"query points strictly inside the box, farther than 1e-6*scale from every input and output ring; areas within 1e-9*scale^2; vertices may leave the box by 1e-9*scale",
			"a box lying wholly inside a ring without the boundary crossing it is outside the property's first clause and not judged",
			"the committed list mon/c16_grid_known.bin holds the grid case ids failing on the pinned tree; a failing grid case that is not listed, or a listed id that is not a contact configuration, is a violation",
		},
		Subs: []h.Sub{
			{
				Name: "general-position-rings", Count: h.Fixed(20000, 1500000),
				Run: func(c *h.Ctx, idx uint64, r *h.Rand) {
					sc := math.Pow(10, float64(r.Range(-1, 3)))
					ring := gen.SimpleRing(r, r.Range(3, 12), r.Uniform(-2, 2)*sc, r.Uniform(-2, 2)*sc, 0.3*sc, 2*sc, 0)
					if ring == nil {
						return
					}
					o := orb.CCW
					if r.Bool() {
						o = orb.CW
						gen.Reverse(ring)
					}
					if r.P(1, 5) {
						// a vertex given twice in a row (zero-length edge): the closing vertex, the first vertex, or any other
						at := []int{len(ring) - 1, 0, r.Intn(len(ring))}[r.Intn(3)]
						dup := append([]P{}, ring[:at+1]...)
						dup = append(dup, ring[at])
						ring = append(dup, ring[at+1:]...)
						c.Count("rings_with_a_repeated_vertex", 1)
					}
					cx, cy := ring[0][0], ring[0][1]
					if r.Bool() {
						cx, cy = r.Uniform(-3, 3)*sc, r.Uniform(-3, 3)*sc
					}
					w, ht := r.Uniform(0.2, 3)*sc, r.Uniform(0.2, 3)*sc
					box := [4]float64{cx - w*r.Float64(), cy - ht*r.Float64(), 0, 0}
					box[2], box[3] = box[0]+w, box[1]+ht
					if c16contact(box, ring) {
						return
					}
					c.Note([]byte(fmt.Sprintf("box=%v ring=%v o=%d", box, ring, o)))
					d := func(out orb.MultiPolygon) map[string]interface{} {
						return map[string]interface{}{"box": box, "ring": ring, "orientation": int(o), "output": sv(out)}
					}
					scale := math.Max(maxAbs(ring), math.Max(math.Abs(box[2]), math.Abs(box[3])))
					in := [][][]P{{ring}}
					if !crossesOpenBox(box, ring) {
						// wholly inside -> unchanged, wholly outside -> nothing (box inside the ring: not judged)
						ctr := P{(box[0] + box[2]) / 2, (box[1] + box[3]) / 2}
						inside := true
						for _, v := range ring {
							inside = inside && v[0] > box[0] && v[0] < box[2] && v[1] > box[1] && v[1] < box[3]
						}
						out, pv, st := c16runRing(box, ring, o)
						c.Eval()
						if pv != nil {
							c.Fail("", "smartclip.Ring panicked", map[string]interface{}{"case": d(nil), "panic": sv(pv), "stack": st})
						} else if inside {
							if len(out) != 1 || len(out[0]) != 1 || !bitsEqualPts(out[0][0], pToRing(ring)) {
								c.Fail("", "a ring wholly inside the box is not returned unchanged", d(out))
							}
							c.Count("wholly_inside", 1)
						} else if inn, _ := exact.Locate(ring, ctr); !inn {
							if out != nil {
								c.Fail("", "a ring wholly outside the box does not yield nothing", d(out))
							}
							c.Count("wholly_outside", 1)
						}
						return
					}
					out, pv, st := c16runRing(box, ring, o)
					c.Eval()
					if pv != nil {
						c.Fail("", "smartclip.Ring panicked", map[string]interface{}{"case": d(nil), "panic": sv(pv), "stack": st})
						return
					}
					c16ret.check(c)
					if out != nil {
						c16ret.set(out, "smartclip.Ring")
					}
					if msg, det := c16judge(box, in, o, out, plainClipArea(box, in), c16queries(r, box, 30), scale); msg != "" {
						c.Fail("", msg, map[string]interface{}{"case": d(out), "detail": det})
						return
					}
					if r.P(1, 4) {
						// the same scene 2^k times as large or as small (an exact change of unit for every input number, far from
						// overflow and underflow even for products of two lengths): the same result in the new unit, bit for bit
						k := r.Range(1, 400)
						if r.Bool() {
							k = -k
						}
						f := math.Ldexp(1, k)
						sring := make([]P, len(ring))
						for i, v := range ring {
							sring[i] = P{v[0] * f, v[1] * f}
						}
						sout, pv, _ := c16runRing([4]float64{box[0] * f, box[1] * f, box[2] * f, box[3] * f}, sring, o)
						c.Eval()
						c.Count("scenes_repeated_in_another_unit", 1)
						want := refProject(refmodel.Copy(out), func(p orb.Point) orb.Point { return orb.Point{p[0] * f, p[1] * f} })
						if pv != nil || !refmodel.EqualBits(sout, want) || (sout == nil) != (out == nil) {
							c.Fail("", "the same scene in another unit (all numbers times a power of two) is clipped differently", map[string]interface{}{"case": d(out), "power_of_two": k, "output_in_the_other_unit": sv(sout), "panic": sv(pv)})
							return
						}
					}
					// generic entry agrees
					g := smartclip.Geometry(boundOf(box[0], box[1], box[2], box[3]), pToRing(ring), o)
					c.Eval()
					switch {
					case len(out) == 0:
						if g != nil {
							c.Fail("", "smartclip.Geometry(Ring) is not nil although Ring returns nothing", d(out))
						}
					case len(out) == 1:
						if !refmodel.EqualValues(g, out[0]) {
							c.Fail("", "smartclip.Geometry(Ring) is not the single polygon Ring returns", d(out))
						}
					default:
						if !refmodel.EqualValues(g, out) {
							c.Fail("", "smartclip.Geometry(Ring) differs from Ring", d(out))
						}
					}
					// open input: cut the ring outside the box
					n := len(ring) - 1
					miss := make([]bool, n) // edge i = (v_i, v_i+1) misses the closed box
					for i := 0; i < n; i++ {
						miss[i] = !segMeetsBox(ring[i], ring[i+1], box[0], box[1], box[2], box[3])
					}
					for a := 0; a < n; a++ {
						if !(miss[(a+n-1)%n] && miss[a]) {
							continue
						}
						// drop vertex a (and following ones while their edges miss the box)
						b := a
						for k := 0; k < n-3 && miss[(b+1)%n] && r.Bool(); k++ {
							b++
						}
						var openPath []P
						for i := b + 1; i < a+n; i++ {
							openPath = append(openPath, ring[i%n])
						}
						if len(openPath) < 2 {
							break
						}
						var oout orb.MultiPolygon
						pv, st := h.Catch(func() {
							oout = smartclip.Ring(boundOf(box[0], box[1], box[2], box[3]), pToRing(openPath), o)
						})
						c.Eval()
						if pv != nil {
							c.Fail("", "smartclip.Ring panicked on an open ring", map[string]interface{}{"box": box, "open_ring": openPath, "orientation": int(o), "panic": sv(pv), "stack": st})
						} else if msg, det := c16judge(box, in, o, oout, plainClipArea(box, in), c16queries(r, box, 20), scale); msg != "" {
							c.Fail("", "open ring (cut outside the box) not completed to the closed ring's region: "+msg, map[string]interface{}{"box": box, "closed_ring": ring, "open_ring": openPath, "orientation": int(o), "output": sv(oout), "detail": det})
						}
						c.Count("open_inputs", 1)
						break
					}
					c.Nontrivial(h.Mix(hashP(ring), h.HashFloats(box[:]...), uint64(o+2)))
					c.Sample(map[string]interface{}{"box": box, "ring": ring, "orientation": int(o), "output": sv(out)})
				},
			},
			{
				Name: "polygons-and-multipolygons", Count: h.Fixed(8000, 500000),
				Run: func(c *h.Ctx, idx uint64, r *h.Rand) {
					sc := 10.0
					np := r.Range(1, 3)
					o := orb.CCW
					if r.Bool() {
						o = orb.CW
					}
					var in [][][]P
					var mp orb.MultiPolygon
					snapP := 0.0
					if r.P(1, 3) {
						snapP = 1 // integer vertices (exact coincidences between rings); the box then sits on half-integers: no contact
					}
					lakeIsland := r.P(1, 6)
					if lakeIsland {
						// members that are not side by side: a polygon with a lake, and an island in that lake as another member
						// (with its own holes). A box over the island's shore lies inside the first member's outer ring - that
						// member is all around the box - while its lake's shore and the island's outer ring are cut.
						np = 0
						lake := gen.SimpleRing(r, r.Range(4, 10), 0, 0, 0.8*sc, 2*sc, snapP)
						island := gen.PolygonWithHoles(r, r.Range(4, 8), 0, 0, 0.25*sc, 0.6*sc, snapP, r.Intn(3))
						if lake == nil || island == nil || !gen.StrictlyInside(island[0], lake) {
							return
						}
						gen.Reverse(lake)
						e := 4 * sc
						around := [][]P{{{-e, -e}, {e, -e}, {e, e}, {-e, e}, {-e, -e}}, lake}
						in = [][][]P{around, island}
						if r.Bool() {
							in = [][][]P{island, around}
						}
						for _, rings := range in {
							var pg orb.Polygon
							for _, rg := range rings {
								if o == orb.CW {
									gen.Reverse(rg)
								}
								pg = append(pg, pToRing(rg))
							}
							mp = append(mp, pg)
						}
						c.Count("multipolygons_of_a_polygon_with_a_lake_and_an_island_in_it", 1)
					}
					for k := 0; k < np; k++ {
						rings := gen.PolygonWithHoles(r, r.Range(4, 10), math.Round(float64(k)*5*sc+r.Uniform(-1, 1)*sc), math.Round(r.Uniform(-1, 1)*sc), 0.8*sc, 2*sc, snapP, r.Intn(4))
						if rings == nil {
							return
						}
						for _, other := range in {
							if !gen.Disjoint(rings[0], other[0]) {
								return // members of a multi-polygon do not overlap (decided exactly; they are placed 5 units apart and reach up to 4)
							}
						}
						if o == orb.CW {
							for _, rg := range rings {
								gen.Reverse(rg)
							}
						}
						in = append(in, rings)
						var pg orb.Polygon
						for _, rg := range rings {
							pg = append(pg, pToRing(rg))
						}
						mp = append(mp, pg)
					}
					// a box around a part of one polygon (or around a hole)
					pk := in[r.Intn(len(in))]
					rg := pk[r.Intn(len(pk))]
					if lakeIsland && r.P(2, 3) {
						for _, m := range in {
							if len(m[0]) != 5 || math.Abs(m[0][0][0]) != 4*sc {
								rg = m[0] // the island's shore
							}
						}
					}
					v := rg[r.Intn(len(rg))]
					w, ht := r.Uniform(0.3, 4)*sc, r.Uniform(0.3, 4)*sc
					box := [4]float64{v[0] - w*r.Float64(), v[1] - ht*r.Float64(), 0, 0}
					box[2], box[3] = box[0]+w, box[1]+ht
					if len(in) > 1 && r.P(1, 3) {
						// one polygon wholly inside the box, a neighbour cut by it
						a := r.Intn(len(in))
						bb := (a + 1 + r.Intn(len(in)-1)) % len(in)
						x0, y0, x1, y1 := math.Inf(1), math.Inf(1), math.Inf(-1), math.Inf(-1)
						for _, v := range in[a][0] {
							x0, y0, x1, y1 = math.Min(x0, v[0]), math.Min(y0, v[1]), math.Max(x1, v[0]), math.Max(y1, v[1])
						}
						t := in[bb][0][r.Intn(len(in[bb][0]))]
						tx, ty := t[0]+r.Uniform(-0.5, 0.5)*sc, t[1]+r.Uniform(-0.5, 0.5)*sc
						m := r.Uniform(0.01, 0.3) * sc
						box = [4]float64{math.Min(x0-m, tx), math.Min(y0-m, ty), math.Max(x1+m, tx), math.Max(y1+m, ty)}
					}
					if r.P(1, 12) {
						// a box far away from every member: nothing remains
						box[0], box[2] = box[0]+5000, box[2]+5000
						c.Count("boxes_far_from_every_member", 1)
					}
					if snapP > 0 {
						for i := range box {
							box[i] = math.Floor(box[i]) + 0.5
						}
						if box[2] <= box[0] || box[3] <= box[1] {
							return
						}
					}
					anyCut := false
					boxInsideSomeOuter := false
					for _, pg := range in {
						for _, rg := range pg {
							if c16contact(box, rg) {
								return
							}
							anyCut = anyCut || cutByBox(box, rg)
						}
						if inn, _ := exact.Locate(pg[0], P{box[0], box[1]}); inn && !cutByBox(box, pg[0]) {
							boxInsideSomeOuter = true
						}
					}
					if !anyCut && boxInsideSomeOuter {
						return // the box lies inside a polygon and no ring is cut: outside the property's clauses
					}
					c.Note([]byte(fmt.Sprintf("box=%v mp=%v o=%d", box, in, o)))
					b := boundOf(box[0], box[1], box[2], box[3])
					scale := 12 * sc
					exp := plainClipArea(box, in)
					qs := c16queries(r, box, 40)
					// single polygons through Polygon
					for k, pg := range in {
						cut := false
						for _, rg := range pg {
							cut = cut || cutByBox(box, rg)
						}
						if !cut {
							continue
						}
						var out orb.MultiPolygon
						pv, st := h.Catch(func() { out = smartclip.Polygon(b, clonePoly(mp[k]), o) })
						c.Eval()
						one := [][][]P{pg}
						if pv != nil {
							c.Fail("", "smartclip.Polygon panicked", map[string]interface{}{"box": box, "polygon": pg, "orientation": int(o), "panic": sv(pv), "stack": st})
						} else if msg, det := c16judge(box, one, o, out, plainClipArea(box, one), qs, scale); msg != "" {
							c.Fail("", "smartclip.Polygon: "+msg, map[string]interface{}{"box": box, "polygon": pg, "orientation": int(o), "output": sv(out), "detail": det})
						}
					}
					var out orb.MultiPolygon
					mpArg := cloneMP(mp)
					if r.P(1, 4) {
						// polygons without rings among the members (they enclose nothing)
						for n := r.Range(1, 2); n > 0; n-- {
							at := r.Intn(len(mpArg) + 1)
							mpArg = append(mpArg[:at:at], append(orb.MultiPolygon{orb.Polygon{}}, mpArg[at:]...)...)
						}
						c.Count("multipolygons_with_empty_members", 1)
					}
					pv, st := h.Catch(func() { out = smartclip.MultiPolygon(b, mpArg, o) })
					c.Eval()
					if pv != nil {
						c.Fail("", "smartclip.MultiPolygon panicked", map[string]interface{}{"box": box, "multipolygon": in, "argument": sv(mpArg), "orientation": int(o), "panic": sv(pv), "stack": st})
						return
					}
					if !anyCut {
						// nothing is cut: exactly the polygons wholly inside come back, unchanged
						var want orb.MultiPolygon
						for k, pg := range in {
							if whollyInside(box, pg[0]) {
								want = append(want, mp[k])
							}
						}
						c.Count("multipolygon_nothing_cut", 1)
						var outNE orb.MultiPolygon // (a member without rings may or may not be passed through: it encloses nothing)
						for _, pg := range out {
							if len(pg) > 0 {
								outNE = append(outNE, pg)
							}
						}
						if len(want) == 0 && out != nil {
							// nothing remains: said the way Ring and Polygon say it (nil), so that the generic entry returns a nil geometry
							c.Fail("", "smartclip.MultiPolygon with every member outside the box returns an empty non-nil value instead of nothing (nil)", map[string]interface{}{"box": box, "multipolygon": in, "orientation": int(o), "output": fmt.Sprintf("%#v", out)})
						}
						if !(len(outNE) == 0 && len(want) == 0) && !refmodel.EqualValues(outNE, want) {
							c.Fail("", "smartclip.MultiPolygon with no ring cut does not return exactly the polygons inside the box, unchanged", map[string]interface{}{"box": box, "multipolygon": in, "orientation": int(o), "output": sv(out)})
						}
						return
					}
					if msg, det := c16judge(box, in, o, out, exp, qs, scale); msg != "" {
						c.Fail("", "smartclip.MultiPolygon: "+msg, map[string]interface{}{"box": box, "multipolygon": in, "orientation": int(o), "output": sv(out), "detail": det})
						return
					}
					g := smartclip.Geometry(b, cloneMP(mp), o)
					c.Eval()
					if len(out) == 1 {
						if !refmodel.EqualValues(g, out[0]) {
							c.Fail("", "smartclip.Geometry(MultiPolygon) is not the single polygon MultiPolygon returns", map[string]interface{}{"box": box, "multipolygon": in})
						}
					} else if len(out) > 1 && !refmodel.EqualValues(g, out) {
						c.Fail("", "smartclip.Geometry(MultiPolygon) differs from MultiPolygon", map[string]interface{}{"box": box, "multipolygon": in})
					}
					c.Nontrivial(h.Mix(hashP(in[0][0]), h.HashFloats(box[:]...), uint64(np), uint64(o+2)))
					c.Sample(map[string]interface{}{"box": box, "multipolygon": in, "orientation": int(o), "output": sv(out)})
				},
			},
			{
				// one polygon that the box cuts into several pieces whose bounding boxes overlap or nest: a large square with
				// 1..3 zigzag slots running through the box, and small holes scattered over the pieces (some cut, most not)
				Name: "multi-piece-polygons-with-holes", Count: h.Fixed(6000, 600000),
				Run: func(c *h.Ctx, idx uint64, r *h.Rand) {
					rings, box := c16slotted(r)
					if rings == nil {
						return
					}
					o := orb.CCW
					if r.Bool() {
						o = orb.CW
						for _, rg := range rings {
							gen.Reverse(rg)
						}
					}
					for _, rg := range rings {
						if c16contact(box, rg) {
							return
						}
					}
					if !cutByBox(box, rings[0]) {
						return
					}
					c.Note([]byte(fmt.Sprintf("box=%v polygon=%v o=%d", box, rings, o)))
					var pg orb.Polygon
					for _, rg := range rings {
						pg = append(pg, pToRing(rg))
					}
					in := [][][]P{rings}
					b := boundOf(box[0], box[1], box[2], box[3])
					qs := c16queries(r, box, 40)
					for _, hr := range rings[1:] {
						// the middle of every hole, and points just outside its four sides
						cx, cy := (hr[0][0]+hr[2][0])/2, (hr[0][1]+hr[2][1])/2
						qs = append(qs, P{cx, cy})
					}
					exp := plainClipArea(box, in)
					var out orb.MultiPolygon
					pv, st := h.Catch(func() { out = smartclip.Polygon(b, clonePoly(pg), o) })
					c.Eval()
					if pv != nil {
						c.Fail("", "smartclip.Polygon panicked", map[string]interface{}{"box": box, "polygon": rings, "orientation": int(o), "panic": sv(pv), "stack": st})
						return
					}
					if msg, det := c16judge(box, in, o, out, exp, qs, 40); msg != "" {
						c.Fail("", "smartclip.Polygon (several pieces): "+msg, map[string]interface{}{"box": box, "polygon": rings, "orientation": int(o), "output": sv(out), "detail": det})
						return
					}
					var out2 orb.MultiPolygon
					pv, st = h.Catch(func() { out2 = smartclip.MultiPolygon(b, orb.MultiPolygon{clonePoly(pg)}, o) })
					c.Eval()
					if pv != nil {
						c.Fail("", "smartclip.MultiPolygon panicked", map[string]interface{}{"box": box, "polygon": rings, "orientation": int(o), "panic": sv(pv), "stack": st})
						return
					}
					if msg, det := c16judge(box, in, o, out2, exp, qs, 40); msg != "" {
						c.Fail("", "smartclip.MultiPolygon (several pieces): "+msg, map[string]interface{}{"box": box, "polygon": rings, "orientation": int(o), "output": sv(out2), "detail": det})
						return
					}
					c.Max("result polygons from one input polygon", float64(len(out)), nil)
					holesOut := 0
					for _, p := range out {
						holesOut += len(p) - 1
					}
					c.Count("holes_attached_in_results", int64(holesOut))
					if len(out) >= 2 {
						c.Count("results_with_two_or_more_pieces", 1)
					}
					c.Nontrivial(h.Mix(hashP(rings[0]), h.HashFloats(box[:]...), uint64(len(rings)), uint64(o+2)))
					c.Sample(map[string]interface{}{"box": box, "polygon": rings, "orientation": int(o), "output": sv(out)})
				},
			},
			{
				// a region that surrounds the box and reaches into it through a slit, or lies outside and reaches in with a spike,
				// of any width from 1e-13 to 1: the two cuts on one side of the box are then almost, but not, the same point
				Name: "thin-slits-and-spikes", Count: h.Fixed(600, 60000),
				Run: func(c *h.Ctx, idx uint64, r *h.Rand) {
					w := []float64{1e-13, 2e-12, 1e-11, 1e-9, 1e-6, 1e-3, 0.1, 1}[r.Intn(8)] * r.Uniform(0.5, 2)
					x0 := r.Uniform(1, 9)
					tip := P{r.Uniform(1, 9), r.Uniform(1, 9)}
					var ring []P
					slit := r.Bool()
					if slit {
						// the square [-5,15]^2 with a wedge cut out from its top side down to the tip
						ring = []P{{-5, -5}, {15, -5}, {15, 15}, {x0 + w/2, 15}, tip, {x0 - w/2, 15}, {-5, 15}, {-5, -5}}
					} else {
						// a bar above the box with a wedge hanging down to the tip
						ring = []P{{-5, 12}, {x0 - w/2, 12}, tip, {x0 + w/2, 12}, {15, 12}, {15, 15}, {-5, 15}, {-5, 12}}
					}
					box := [4]float64{0, 0, 10, 10}
					swap, fx, fy := r.Bool(), r.Bool(), r.Bool()
					flips := 0
					for i := range ring {
						p := ring[i]
						if fx {
							p[0] = 10 - p[0]
						}
						if fy {
							p[1] = 10 - p[1]
						}
						if swap {
							p[0], p[1] = p[1], p[0]
						}
						ring[i] = p
					}
					for _, f := range []bool{swap, fx, fy} {
						if f {
							flips++
						}
					}
					if flips%2 == 1 {
						gen.Reverse(ring)
					}
					o := orb.CCW
					if r.Bool() {
						o = orb.CW
						gen.Reverse(ring)
					}
					if c16contact(box, ring) || !cutByBox(box, ring) {
						return
					}
					c.Note([]byte(fmt.Sprintf("box=%v ring=%v o=%d", box, ring, o)))
					in := [][][]P{{ring}}
					exp := plainClipArea(box, in)
					qs := c16queries(r, box, 30)
					b := boundOf(0, 0, 10, 10)
					for name, f := range map[string]func() orb.MultiPolygon{
						"Ring":         func() orb.MultiPolygon { return smartclip.Ring(b, pToRing(ring), o) },
						"Polygon":      func() orb.MultiPolygon { return smartclip.Polygon(b, orb.Polygon{pToRing(ring)}, o) },
						"MultiPolygon": func() orb.MultiPolygon { return smartclip.MultiPolygon(b, orb.MultiPolygon{{pToRing(ring)}}, o) },
					} {
						var out orb.MultiPolygon
						pv, st := h.Catch(func() { out = f() })
						c.Eval()
						if pv != nil {
							c.Fail("", "smartclip."+name+" panicked", map[string]interface{}{"ring": ring, "orientation": int(o), "panic": sv(pv), "stack": st})
							continue
						}
						if msg, det := c16judge(box, in, o, out, exp, qs, 20); msg != "" {
							c.Fail("", "smartclip."+name+" (thin slit or spike): "+msg, map[string]interface{}{"ring": ring, "width": w, "slit": slit, "orientation": int(o), "output": sv(out), "detail": det})
						}
					}
					c.Nontrivial(h.Mix(hashP(ring), uint64(o+2)))
					c.Sample(map[string]interface{}{"ring": ring, "width": w, "slit": slit, "orientation": int(o)})
				},
			},
			{
				// a fixed (seed-independent) list of contact configurations with richer rings: simple rings of 5..9
				// vertices on the integer grid against integer boxes; judged against the committed list like the grid
				Name: "fixed-list-contact-rings", Count: h.Fixed(150000, 2000000),
				Run: func(c *h.Ctx, idx uint64, _ *h.Rand) {
					c16loadKnown()
					c16fixedCase(c, idx, nil)
				},
			},
			{
				Name: "grid-triangles", Count: h.Fixed(46656, 46656), Exhaustive: h.Always,
				Run: func(c *h.Ctx, idx uint64, r *h.Rand) {
					c16loadKnown()
					gridCase(c, idx, nil)
				},
			},
			{
				Name: "grid-quadrilaterals", Count: h.Fixed(1679616/8, 1679616), Exhaustive: h.ThoroughOnly,
				Run: func(c *h.Ctx, idx uint64, r *h.Rand) {
					c16loadKnown()
					k := idx
					if c.Quick() {
						k = idx*8 + uint64(r.Intn(8))
					}
					gridCase(c, 46656+k, nil)
				},
			},
		},
	})

	// development tool: VERIF_C16_DUMP=<file> regenerates the list of failing grid cases (never used by a check)
	if path := os.Getenv("VERIF_C16_DUMP"); path != "" {
		h.Register(&h.Monitor{ID: "C16DUMP", Rule: "dev tool", Subs: []h.Sub{{
			Name: "dump", Count: h.Fixed(16, 16), BudgetSec: 7200,
			Run: func(c *h.Ctx, idx uint64, r *h.Rand) {
				c16known = map[uint64]bool{}
				dump := map[uint64]bool{}
				for seq := idx; seq < 46656+1679616; seq += 16 {
					gridCase(c, seq, dump)
				}
				for k := idx; k < 2000000; k += 16 {
					c16fixedCase(c, k, dump)
				}
				ids := make([]uint64, 0, len(dump))
				for id := range dump {
					ids = append(ids, id)
				}
				sort.Slice(ids, func(i, j int) bool { return ids[i] < ids[j] })
				b := make([]byte, 8*len(ids))
				for i, id := range ids {
					binary.LittleEndian.PutUint64(b[8*i:], id)
				}
				os.WriteFile(fmt.Sprintf("%s.%d", path, idx), b, 0644)
			},
		}}})
	}
}
