package mon

import (
	"fmt"
	"math"

	"github.com/paulmach/orb"

	"verif/internal/exact"
	"verif/internal/h"
	"verif/internal/refmodel"
)

type P = exact.P

func lsToP(ls []orb.Point) []P {
	out := make([]P, len(ls))
	for i, p := range ls {
		out[i] = P{p[0], p[1]}
	}
	return out
}

func pToLS(ps []P) orb.LineString {
	out := make(orb.LineString, len(ps))
	for i, p := range ps {
		out[i] = orb.Point{p[0], p[1]}
	}
	return out
}

func pToRing(ps []P) orb.Ring { return orb.Ring(pToLS(ps)) }

func cloneLS(ls orb.LineString) orb.LineString {
	if ls == nil {
		return nil
	}
	out := make(orb.LineString, len(ls))
	copy(out, ls)
	return out
}

func cloneRing(r orb.Ring) orb.Ring { return orb.Ring(cloneLS(orb.LineString(r))) }

func clonePoly(p orb.Polygon) orb.Polygon {
	if p == nil {
		return nil
	}
	out := make(orb.Polygon, len(p))
	for i := range p {
		out[i] = cloneRing(p[i])
	}
	return out
}

func cloneMP(mp orb.MultiPolygon) orb.MultiPolygon {
	if mp == nil {
		return nil
	}
	out := make(orb.MultiPolygon, len(mp))
	for i := range mp {
		out[i] = clonePoly(mp[i])
	}
	return out
}

func bitsEqualPts(a, b []orb.Point) bool {
	if len(a) != len(b) {
		return false
	}
	for i := range a {
		if math.Float64bits(a[i][0]) != math.Float64bits(b[i][0]) || math.Float64bits(a[i][1]) != math.Float64bits(b[i][1]) {
			return false
		}
	}
	return true
}

func dedupe(ps []P) []P {
	out := make([]P, 0, len(ps))
	for i, p := range ps {
		if i > 0 && p == ps[i-1] {
			continue
		}
		out = append(out, p)
	}
	return out
}

func hashPts(ps []orb.Point) uint64 {
	hh := uint64(len(ps))
	for _, p := range ps {
		hh = h.Mix(hh, math.Float64bits(p[0]), math.Float64bits(p[1]))
	}
	return hh
}

func hashP(ps []P) uint64 {
	hh := uint64(len(ps))
	for _, p := range ps {
		hh = h.Mix(hh, math.Float64bits(p[0]), math.Float64bits(p[1]))
	}
	return hh
}

func boundOf(minx, miny, maxx, maxy float64) orb.Bound {
	return orb.Bound{Min: orb.Point{minx, miny}, Max: orb.Point{maxx, maxy}}
}

func sv(v interface{}) string { return fmt.Sprintf("%v", v) }

func polyLen(ps []P) float64 {
	s := 0.0
	for i := 1; i < len(ps); i++ {
		s += math.Hypot(ps[i][0]-ps[i-1][0], ps[i][1]-ps[i-1][1])
	}
	return s
}

func maxAbs(ps []P) float64 {
	m := 1.0
	for _, p := range ps {
		m = math.Max(m, math.Max(math.Abs(p[0]), math.Abs(p[1])))
	}
	return m
}

// retained keeps a value the library returned earlier together with a private copy, so a later case can
// observe that the library overwrote memory it had already handed out (shared scratch buffers, pools).
type retained struct {
	g, snap orb.Geometry
	what    string
}

func (r *retained) check(c *h.Ctx) {
	if r.g != nil && !refmodel.EqualBits(r.g, r.snap) {
		c.Fail("", "a value returned by an earlier call was overwritten by a later call ("+r.what+")", map[string]interface{}{"returned_then": sv(r.snap), "same_memory_now": sv(r.g)})
	}
	r.g, r.snap = nil, nil
}

func (r *retained) set(g orb.Geometry, what string) {
	if g == nil {
		return
	}
	r.g, r.snap, r.what = g, refmodel.Copy(g), what
}

// partsIndependent fills the spare capacity behind every point slice of g (what a caller's append to that part would
// write) and reports whether all visible vertices of g are still what they were: two parts of one result must not be
// windows into the same array with one part's spare capacity running into the next part.
func partsIndependent(g orb.Geometry) bool {
	if g == nil {
		return true
	}
	snap := refmodel.Copy(g)
	var fill func(g orb.Geometry)
	pts := func(ps []orb.Point) {
		spare := ps[len(ps):cap(ps)]
		for i := range spare {
			spare[i] = orb.Point{math.NaN(), math.NaN()}
		}
	}
	fill = func(g orb.Geometry) {
		switch x := g.(type) {
		case orb.MultiPoint:
			pts(x)
		case orb.LineString:
			pts(x)
		case orb.Ring:
			pts(x)
		case orb.MultiLineString:
			for _, l := range x {
				pts(l)
			}
		case orb.Polygon:
			for _, l := range x {
				pts(l)
			}
		case orb.MultiPolygon:
			for _, p := range x {
				for _, l := range p {
					pts(l)
				}
			}
		case orb.Collection:
			for _, m := range x {
				fill(m)
			}
		}
	}
	fill(g)
	return refmodel.EqualBits(g, snap)
}

// eachRing calls f for every ring of g (a Ring, the rings of polygons and multi-polygons, at any depth of collections).
func eachRing(g orb.Geometry, f func(orb.Ring)) {
	switch v := g.(type) {
	case orb.Ring:
		f(v)
	case orb.Polygon:
		for _, r := range v {
			f(r)
		}
	case orb.MultiPolygon:
		for _, p := range v {
			for _, r := range p {
				f(r)
			}
		}
	case orb.Collection:
		for _, m := range v {
			eachRing(m, f)
		}
	}
}

// zeroSpelledClosure rewrites some rings of g in place so that the closing vertex equals the first under == while its
// bits differ: one carries +0 where the other carries -0 (both finite float64 values; Ring.Closed() reports true).
func zeroSpelledClosure(r *h.Rand, g orb.Geometry) (n int) {
	eachRing(g, func(rg orb.Ring) {
		if len(rg) < 4 || !r.Bool() {
			return
		}
		ax := r.Intn(2)
		z := 0.0
		if r.Bool() {
			z = math.Copysign(0, -1)
		}
		rg[0][ax] = z
		rg[len(rg)-1] = rg[0]
		rg[len(rg)-1][ax] = -z
		if r.P(1, 3) {
			rg[0][1-ax], rg[len(rg)-1][1-ax] = math.Copysign(0, -1), 0
		}
		n++
	})
	return n
}
