package mon

import (
	"fmt"
	"math"
	"math/big"
	"verif/internal/refmodel"

	"github.com/paulmach/orb"
	"github.com/paulmach/orb/clip"

	"verif/internal/exact"
	"verif/internal/h"
)

// C07 — line clipping returns exactly the part of the line inside the box.
//
// Oracle: Liang–Barsky in rational arithmetic. Per segment the parameter
// interval inside the closed box (closed mode) or the closure of the interval
// inside the open box (open mode); maximal runs are joined through a shared
// vertex (open mode: only if that vertex is strictly inside).

type lbPortion struct {
	seg    int
	t0, t1 *big.Rat
}

var ratOne = big.NewRat(1, 1)

func clipLineOracle(minx, miny, maxx, maxy float64, in []P, open bool) [][]P {
	line := dedupe(in)
	var pieces [][]P
	var cur []P
	prevSeg := -2
	prevEndedAtOne := false
	for i := 0; i+1 < len(line); i++ {
		a, b := line[i], line[i+1]
		ax, ay := exact.R(a[0]), exact.R(a[1])
		dx := new(big.Rat).Sub(exact.R(b[0]), ax)
		dy := new(big.Rat).Sub(exact.R(b[1]), ay)
		t0 := new(big.Rat)
		t1 := new(big.Rat).SetInt64(1)
		ok := true
		cons := [4][2]*big.Rat{
			{new(big.Rat).Neg(dx), new(big.Rat).Sub(ax, exact.R(minx))},
			{dx, new(big.Rat).Sub(exact.R(maxx), ax)},
			{new(big.Rat).Neg(dy), new(big.Rat).Sub(ay, exact.R(miny))},
			{dy, new(big.Rat).Sub(exact.R(maxy), ay)},
		}
		for _, pq := range cons {
			p, q := pq[0], pq[1]
			if p.Sign() == 0 {
				if q.Sign() < 0 || (open && q.Sign() == 0) {
					ok = false
					break
				}
				continue
			}
			r := new(big.Rat).Quo(q, p)
			if p.Sign() < 0 {
				if r.Cmp(t0) > 0 {
					t0 = r
				}
			} else {
				if r.Cmp(t1) < 0 {
					t1 = r
				}
			}
		}
		if !ok || t0.Cmp(t1) >= 0 { // empty or a single point: no positive-length part
			continue
		}
		at := func(t *big.Rat) P {
			if t.Sign() == 0 {
				return a
			}
			if t.Cmp(ratOne) == 0 {
				return b
			}
			x := new(big.Rat).Mul(t, dx)
			x.Add(x, ax)
			y := new(big.Rat).Mul(t, dy)
			y.Add(y, ay)
			return P{exact.F(x), exact.F(y)}
		}
		s, e := at(t0), at(t1)
		join := cur != nil && prevSeg == i-1 && prevEndedAtOne && t0.Sign() == 0
		if join && open {
			// the shared vertex must be strictly inside
			if !(a[0] > minx && a[0] < maxx && a[1] > miny && a[1] < maxy) {
				join = false
			}
		}
		if join {
			cur = append(cur, e)
		} else {
			if cur != nil {
				pieces = append(pieces, cur)
			}
			cur = []P{s, e}
		}
		prevSeg = i
		prevEndedAtOne = t1.Cmp(ratOne) == 0
	}
	if cur != nil {
		pieces = append(pieces, cur)
	}
	return pieces
}

// clipLineOracleInt is the same oracle for small integer coordinates, in int64 fractions.
func clipLineOracleInt(minx, miny, maxx, maxy int64, in [][2]int64, open bool) [][]P {
	var line [][2]int64
	for i, p := range in {
		if i > 0 && p == in[i-1] {
			continue
		}
		line = append(line, p)
	}
	var pieces [][]P
	var cur []P
	prevSeg := -2
	prevEndedAtOne := false
	for i := 0; i+1 < len(line); i++ {
		a, b := line[i], line[i+1]
		dx, dy := b[0]-a[0], b[1]-a[1]
		// t0 = n0/d0, t1 = n1/d1 with positive denominators
		n0, d0, n1, d1 := int64(0), int64(1), int64(1), int64(1)
		ok := true
		cons := [4][2]int64{{-dx, a[0] - minx}, {dx, maxx - a[0]}, {-dy, a[1] - miny}, {dy, maxy - a[1]}}
		for _, pq := range cons {
			p, q := pq[0], pq[1]
			if p == 0 {
				if q < 0 || (open && q == 0) {
					ok = false
					break
				}
				continue
			}
			rn, rd := q, p
			if rd < 0 {
				rn, rd = -rn, -rd
			}
			if p < 0 {
				if rn*d0 > n0*rd {
					n0, d0 = rn, rd
				}
			} else if rn*d1 < n1*rd {
				n1, d1 = rn, rd
			}
		}
		if !ok || n0*d1 >= n1*d0 {
			continue
		}
		at := func(n, d int64) P {
			return P{float64(a[0]*d+n*dx) / float64(d), float64(a[1]*d+n*dy) / float64(d)}
		}
		s, e := at(n0, d0), at(n1, d1)
		join := cur != nil && prevSeg == i-1 && prevEndedAtOne && n0 == 0
		if join && open && !(a[0] > minx && a[0] < maxx && a[1] > miny && a[1] < maxy) {
			join = false
		}
		if join {
			cur = append(cur, e)
		} else {
			if cur != nil {
				pieces = append(pieces, cur)
			}
			cur = []P{s, e}
		}
		prevSeg = i
		prevEndedAtOne = n1 == d1
	}
	if cur != nil {
		pieces = append(pieces, cur)
	}
	return pieces
}

func isSmallInts(box [4]float64, line []P) bool {
	ok := func(v float64) bool { return v == math.Trunc(v) && math.Abs(v) <= 1<<20 }
	for _, v := range box {
		if !ok(v) {
			return false
		}
	}
	for _, p := range line {
		if !ok(p[0]) || !ok(p[1]) {
			return false
		}
	}
	return true
}

// c07oracle picks the integer oracle when it applies.
func c07oracle(box [4]float64, line []P, open bool) [][]P {
	if isSmallInts(box, line) {
		il := make([][2]int64, len(line))
		for i, p := range line {
			il[i] = [2]int64{int64(p[0]), int64(p[1])}
		}
		return clipLineOracleInt(int64(box[0]), int64(box[1]), int64(box[2]), int64(box[3]), il, open)
	}
	return clipLineOracle(box[0], box[1], box[2], box[3], line, open)
}

func samePieces(a, b [][]P, tol float64) bool {
	if len(a) != len(b) {
		return false
	}
	for i := range a {
		if len(a[i]) != len(b[i]) {
			return false
		}
		for j := range a[i] {
			if !near(a[i][j], b[i][j], tol) {
				return false
			}
		}
	}
	return true
}

// dedupeTol removes consecutive vertices closer than tol (rounding twins).
func dedupeTol(ps []P, tol float64) []P {
	out := make([]P, 0, len(ps))
	for _, p := range ps {
		if len(out) > 0 && near(p, out[len(out)-1], tol) {
			continue
		}
		out = append(out, p)
	}
	return out
}

// matchPieces compares library pieces with the oracle's, letting pieces shorter
// than 8*tol be present on one side only (a piece of rounding-error size where the
// line touches the box in a single point is neither required nor forbidden).
func matchPieces(got, exp [][]P, tol float64) bool {
	i, j := 0, 0
	for i < len(got) || j < len(exp) {
		if i < len(got) && j < len(exp) && samePieces([][]P{got[i]}, [][]P{exp[j]}, tol) {
			i++
			j++
			continue
		}
		if i < len(got) && polyLen(got[i]) <= 8*tol {
			i++
			continue
		}
		if j < len(exp) && polyLen(exp[j]) <= 8*tol {
			j++
			continue
		}
		return false
	}
	return true
}

var c07ret retained

type c07case struct {
	Box  [4]float64 `json:"box_minx_miny_maxx_maxy"`
	Line []P        `json:"line"`
	Open bool       `json:"open"`
}

func near(a, b P, tol float64) bool {
	return math.Abs(a[0]-b[0]) <= tol && math.Abs(a[1]-b[1]) <= tol
}

// c07check runs closed and open clipping of one line against one box and judges both.
func c07check(c *h.Ctx, box [4]float64, line []P, tol float64, full bool) (nontrivial bool) {
	var expClosed [][]P
	b := boundOf(box[0], box[1], box[2], box[3])
	in := pToLS(line)
	snap := cloneLS(in)
	for pass := 0; pass < 2; pass++ {
		open := pass == 1
		var got orb.MultiLineString
		if open {
			got = clip.LineString(b, in, clip.OpenBound(true))
		} else {
			got = clip.LineString(b, in)
		}
		c.Eval()
		c07ret.check(c)
		c07ret.set(got, "clip.LineString")
		cs := func() c07case { return c07case{box, line, open} }
		if !bitsEqualPts(in, snap) {
			c.Fail("", "clip.LineString modified its input", cs())
			copy(in, snap)
		}
		if got != nil && len(got) == 0 {
			c.Fail("", "clip.LineString returned an empty non-nil result", cs())
		}
		exp := c07oracle(box, line, open)
		if !open {
			expClosed = exp
			nontrivial = len(exp) > 0
		}
		// classify output pieces
		var rest [][]P
		bad := false
		for _, piece := range got {
			pp := lsToP(piece)
			for _, v := range pp {
				if v[0] < box[0] || v[0] > box[2] || v[1] < box[1] || v[1] > box[3] || v[0] != v[0] || v[1] != v[1] {
					c.Fail("", "output vertex outside the closed box", map[string]interface{}{"case": cs(), "vertex": v, "got": sv(got)})
					bad = true
				}
			}
			d := dedupeTol(pp, tol)
			if len(d) <= 1 {
				// zero-length piece: must be on the input line
				if len(d) == 1 && exact.DistToPolyline(d[0], line, false) > tol {
					c.Fail("", "zero-length output piece is not on the input line", map[string]interface{}{"case": cs(), "got": sv(got)})
					bad = true
				}
				if len(d) == 0 {
					c.Fail("", "empty output piece", map[string]interface{}{"case": cs(), "got": sv(got)})
					bad = true
				}
				c.Count("zero_length_pieces_set_aside", 1)
				continue
			}
			rest = append(rest, d)
		}
		if bad {
			continue
		}
		// both sides are compared after the same normalisation: consecutive vertices closer than tol count as one
		// (input vertices 1e-10 apart would otherwise be merged on the library's side only)
		var expT [][]P
		for _, e := range exp {
			if d := dedupeTol(e, tol); len(d) > 1 {
				expT = append(expT, d)
			}
		}
		if !matchPieces(rest, expT, tol) {
			c.Fail("", "clipped pieces differ from the exact inside part of the line", map[string]interface{}{"case": cs(), "got": sv(got), "expected": sv(exp)})
			continue
		}
		if len(exp) > 0 {
			c.Count("cases_with_inside_part", 1)
		}
		if len(exp) > 1 {
			c.Count("cases_with_several_pieces", 1)
		}
		// wholly inside: returned as is (exactly, duplicates included)
		allIn := len(line) >= 2
		for _, v := range line {
			if open {
				if !(v[0] > box[0] && v[0] < box[2] && v[1] > box[1] && v[1] < box[3]) {
					allIn = false
				}
			} else if v[0] < box[0] || v[0] > box[2] || v[1] < box[1] || v[1] > box[3] {
				allIn = false
			}
		}
		if allIn {
			if len(got) != 1 || !bitsEqualPts(got[0], in) {
				c.Fail("", "a line wholly inside the box is not returned as it is", map[string]interface{}{"case": cs(), "got": sv(got)})
			}
			c.Count("wholly_inside", 1)
		}
		// the pieces are separate values: filling the spare capacity behind one piece (what a caller's append does)
		// must not change another piece
		if len(got) >= 2 {
			snapPieces := refmodel.Copy(got)
			for _, piece := range got {
				if p, ok := snapInput(piece, in); ok {
					spare := p[len(p):cap(p)]
					for i := range spare {
						spare[i] = orb.Point{math.NaN(), math.NaN()}
					}
				}
			}
			if !refmodel.EqualBits(got, snapPieces) {
				c.Fail("", "output pieces share memory: appending to one piece overwrites another", map[string]interface{}{"case": cs(), "pieces_before": sv(snapPieces), "pieces_after": sv(got)})
			}
			c.Count("piece_independence_checks", 1)
		}
		// the same case with zeros spelled as negative zeros (equal values): the same pieces must come back
		if hasZero(box, line) {
			nz := func(v float64, flip bool) float64 {
				if v == 0 && flip {
					return math.Copysign(0, -1)
				}
				return v
			}
			k := h.Mix(c.CaseHash(), uint64(pass), h.HashFloats(box[:]...), hashP(line))
			bit := func() bool { k = k*6364136223846793005 + 1442695040888963407; return k>>63 == 1 }
			bz := boundOf(nz(box[0], bit()), nz(box[1], bit()), nz(box[2], bit()), nz(box[3], bit()))
			inz := make(orb.LineString, len(in))
			for i, v := range in {
				inz[i] = orb.Point{nz(v[0], bit()), nz(v[1], bit())}
			}
			var gz orb.MultiLineString
			if open {
				gz = clip.LineString(bz, inz, clip.OpenBound(true))
			} else {
				gz = clip.LineString(bz, inz)
			}
			c.Eval()
			same := len(gz) == len(got)
			for i := 0; same && i < len(gz); i++ {
				same = len(gz[i]) == len(got[i])
				for j := 0; same && j < len(gz[i]); j++ {
					same = gz[i][j] == got[i][j]
				}
			}
			if !same {
				c.Fail("", "spelling a zero coordinate as negative zero changes the clipped pieces", map[string]interface{}{"case": cs(), "box_spelled": sv(bz), "line_spelled": fmt.Sprintf("%v", inz), "got": sv(gz), "with_positive_zeros": sv(got)})
			}
			c.Count("negative_zero_spellings", 1)
		}
		if !full {
			continue
		}
		// idempotence (closed mode): clipping a piece again returns it unchanged.
		if !open {
			for _, piece := range got {
				again := clip.LineString(b, cloneLS(piece))
				c.Eval()
				d := dedupe(lsToP(piece))
				if len(dedupeTol(d, tol)) <= 1 {
					continue
				}
				if len(again) != 1 || hashP(dedupe(lsToP(again[0]))) != hashP(d) {
					c.Fail("", "clipping an output piece again changes it", map[string]interface{}{"case": cs(), "piece": sv(piece), "again": sv(again)})
				}
			}
		}
		// MultiLineString = concatenation, Geometry agrees
		var opts []clip.Option
		if open {
			opts = append(opts, clip.OpenBound(true))
		}
		other := orb.LineString{{box[0] - 3, box[1] - 3}, {box[0] - 2, box[1] - 3}}
		// an outside member first, then the line, another outside member, the line again
		// (vertex-less members, empty and nil, stand between and behind the others: they contribute nothing)
		mlsIn := orb.MultiLineString{cloneLS(other), cloneLS(in), orb.LineString{}, cloneLS(other), cloneLS(in), nil}
		mlsSnap := orb.MultiLineString{cloneLS(other), cloneLS(in), orb.LineString{}, cloneLS(other), cloneLS(in), nil}
		mls := clip.MultiLineString(b, mlsIn, opts...)
		c.Eval()
		for i := range mlsSnap {
			if i >= len(mlsIn) || !bitsEqualPts(mlsIn[i], mlsSnap[i]) {
				c.Fail("", "clip.MultiLineString modified its input (members moved or overwritten)", map[string]interface{}{"case": cs(), "input_before": sv(mlsSnap), "input_after": sv(mlsIn)})
				break
			}
		}
		if len(mls) != 2*len(got) {
			c.Fail("", "clip.MultiLineString is not the concatenation of the members' clips", map[string]interface{}{"case": cs(), "got": sv(mls), "single": sv(got)})
		} else {
			for i := range mls {
				if !bitsEqualPts(mls[i], got[i%max1(len(got))]) {
					c.Fail("", "clip.MultiLineString piece differs from clip.LineString piece", map[string]interface{}{"case": cs(), "got": sv(mls), "single": sv(got)})
					break
				}
			}
		}
		if !open {
			g := clip.Geometry(b, cloneLS(in))
			c.Eval()
			switch {
			case len(got) == 0:
				if g != nil {
					c.Fail("", "clip.Geometry(LineString) not nil although nothing is inside", map[string]interface{}{"case": cs(), "got": sv(g)})
				}
			case len(got) == 1:
				ls, ok := g.(orb.LineString)
				if !ok || !bitsEqualPts(ls, got[0]) {
					c.Fail("", "clip.Geometry(LineString) differs from clip.LineString (single piece)", map[string]interface{}{"case": cs(), "got": sv(g), "typed": sv(got)})
				}
			default:
				m, ok := g.(orb.MultiLineString)
				if !ok || len(m) != len(got) {
					c.Fail("", "clip.Geometry(LineString) differs from clip.LineString (several pieces)", map[string]interface{}{"case": cs(), "got": sv(g), "typed": sv(got)})
				}
			}
		}
	}
	// options are applied in the order given: the last one decides
	for _, oc := range []struct {
		opts []clip.Option
		name string
		want orb.MultiLineString
	}{
		{[]clip.Option{clip.OpenBound(true), clip.OpenBound(false)}, "OpenBound(true), OpenBound(false)", clip.LineString(b, cloneLS(in))},
		{[]clip.Option{clip.OpenBound(false), clip.OpenBound(true)}, "OpenBound(false), OpenBound(true)", clip.LineString(b, cloneLS(in), clip.OpenBound(true))},
		{[]clip.Option{clip.OpenBound(false)}, "OpenBound(false)", clip.LineString(b, cloneLS(in))},
	} {
		g2 := clip.LineString(b, cloneLS(in), oc.opts...)
		c.Eval()
		if !refmodel.EqualBits(g2, oc.want) {
			c.Fail("", "several options in one call: the result is not that of the last option given", map[string]interface{}{"case": c07case{box, line, false}, "options": oc.name, "got": sv(g2), "want": sv(oc.want)})
		}
	}
	// closed again after open: the option must not stick
	got2 := clip.LineString(b, in)
	c.Eval()
	var rest2 [][]P
	for _, piece := range got2 {
		if d := dedupeTol(lsToP(piece), tol); len(d) > 1 {
			rest2 = append(rest2, d)
		}
	}
	var expClosedT [][]P
	for _, e := range expClosed {
		if d := dedupeTol(e, tol); len(d) > 1 {
			expClosedT = append(expClosedT, d)
		}
	}
	if !matchPieces(rest2, expClosedT, tol) {
		c.Fail("", "closed clip after an open clip differs from the exact closed result (option state leaked?)", map[string]interface{}{"case": c07case{box, line, false}, "got": sv(got2), "expected": sv(expClosed)})
	}
	return nontrivial
}

// snapInput reports whether piece may be written behind its length: not when it is the caller's own input slice
// (a line wholly inside is returned as it is).
func snapInput(piece, in orb.LineString) (orb.LineString, bool) {
	if len(piece) > 0 && len(in) > 0 && &piece[0] == &in[0] {
		return nil, false
	}
	return piece, cap(piece) > len(piece)
}

func hasZero(box [4]float64, line []P) bool {
	for _, v := range box {
		if v == 0 {
			return true
		}
	}
	for _, p := range line {
		if p[0] == 0 || p[1] == 0 {
			return true
		}
	}
	return false
}

func max1(n int) int {
	if n < 1 {
		return 1
	}
	return n
}

var c07boxes5 [][4]float64

func init() {
	for x0 := 1; x0 <= 5; x0++ {
		for x1 := x0 + 1; x1 <= 5; x1++ {
			for y0 := 1; y0 <= 5; y0++ {
				for y1 := y0 + 1; y1 <= 5; y1++ {
					c07boxes5 = append(c07boxes5, [4]float64{float64(x0), float64(y0), float64(x1), float64(y1)})
				}
			}
		}
	}

	gp := func(k uint64) P { return P{float64(k % 7), float64(k / 7)} }

	h.Register(&h.Monitor{
		ID: "C07",
		Rule: "cases are (box, line) pairs, each clipped closed, open and closed again; exhaustive part: every segment / two-segment path on the 7x7 integer grid against all 100 sub-boxes of the inner 5x5 grid, the segments also with everything translated by (-3,-3) and zeros spelled as negative zeros; random part: float polylines of <= 30 vertices with vertices snapped onto box edges and corners with probability 1/4. " +
			"non-trivial = the exact oracle finds a positive-length part of the line inside the box; distinct = hash of (box, line)",
		MinNontrivial: h.Fixed(50000, 500000),
		Assumptions: []string{
			"oracle: Liang-Barsky in math/big rationals; output compared after removing consecutive duplicate vertices; zero-length output pieces are set aside (must lie in the box and on the line)",
			"coordinates of computed intersections are compared within 1e-12 on the grid and 1e-9*scale for float inputs (the library computes them through one division)",
		},
		Subs: []h.Sub{
			{
				Name:       "grid-segments",
				Count:      h.Fixed(2401, 2401),
				Exhaustive: h.Always,
				Run: func(c *h.Ctx, idx uint64, r *h.Rand) {
					line := []P{gp(idx / 49), gp(idx % 49)}
					for _, box := range c07boxes5 {
						// self-check of the two oracle implementations against each other
						for _, open := range []bool{false, true} {
							if !samePieces(c07oracle(box, line, open), clipLineOracle(box[0], box[1], box[2], box[3], line, open), 0) {
								c.Fail("", "oracle self-check: integer and big.Rat oracles disagree", c07case{box, line, open})
							}
						}
						if c07check(c, box, line, 1e-12, true) {
							c.Nontrivial(h.Mix(c.CaseHash(), uint64(box[0]), uint64(box[1]), uint64(box[2]), uint64(box[3])))
						}
					}
					if c.WantSample() {
						c.Sample(map[string]interface{}{"line": line, "boxes": "all 100 sub-boxes of the 5x5 grid", "modes": "closed, open, closed"})
					}
				},
			},
			{
				// the same space translated by (-3,-3): box sides and vertices at zero (both spellings of zero) and negative coordinates
				Name:       "grid-segments-around-zero",
				Count:      h.Fixed(2401, 2401),
				Exhaustive: h.Always,
				Run: func(c *h.Ctx, idx uint64, r *h.Rand) {
					sh := func(p P) P { return P{p[0] - 3, p[1] - 3} }
					line := []P{sh(gp(idx / 49)), sh(gp(idx % 49))}
					for _, b5 := range c07boxes5 {
						box := [4]float64{b5[0] - 3, b5[1] - 3, b5[2] - 3, b5[3] - 3}
						if c07check(c, box, line, 1e-12, true) {
							c.Nontrivial(h.Mix(c.CaseHash(), uint64(b5[0]), uint64(b5[1]), uint64(b5[2]), uint64(b5[3])))
						}
					}
					if c.WantSample() {
						c.Sample(map[string]interface{}{"line": line, "boxes": "all 100 sub-boxes of the 5x5 grid shifted by (-3,-3)", "modes": "closed, open, closed; zeros also spelled -0"})
					}
				},
			},
			{
				Name:       "grid-paths2",
				Count:      h.Fixed(11765, 117649),
				Exhaustive: h.ThoroughOnly,
				Run: func(c *h.Ctx, idx uint64, r *h.Rand) {
					k := idx
					if c.Quick() {
						k = idx*10 + uint64(r.Intn(10))
						if k >= 117649 {
							k = 117648
						}
					}
					line := []P{gp(k / 2401), gp((k / 49) % 49), gp(k % 49)}
					for _, box := range c07boxes5 {
						if c07check(c, box, line, 1e-12, false) {
							c.Nontrivial(h.Mix(h.HashString("C07/paths2"), k, uint64(box[0]), uint64(box[1]), uint64(box[2]), uint64(box[3])))
						}
					}
					if c.WantSample() {
						c.Sample(map[string]interface{}{"line": line, "boxes": "all 100 sub-boxes of the 5x5 grid", "modes": "closed, open, closed"})
					}
				},
			},
			{
				Name:       "grid-paths3",
				Count:      h.Fixed(0, 390625),
				Exhaustive: h.ThoroughOnly,
				Run: func(c *h.Ctx, idx uint64, r *h.Rand) {
					g5 := func(k uint64) P { return P{float64(k % 5), float64(k / 5)} }
					line := []P{g5(idx / 15625), g5((idx / 625) % 25), g5((idx / 25) % 25), g5(idx % 25)}
					for x0 := 1; x0 <= 3; x0++ {
						for x1 := x0 + 1; x1 <= 3; x1++ {
							for y0 := 1; y0 <= 3; y0++ {
								for y1 := y0 + 1; y1 <= 3; y1++ {
									box := [4]float64{float64(x0), float64(y0), float64(x1), float64(y1)}
									if c07check(c, box, line, 1e-12, false) {
										c.Nontrivial(h.Mix(c.CaseHash(), uint64(x0), uint64(y0), uint64(x1), uint64(y1)))
									}
								}
							}
						}
					}
					if c.WantSample() {
						c.Sample(map[string]interface{}{"line": line, "boxes": "all 9 sub-boxes of the inner 3x3 grid"})
					}
				},
			},
			{
				Name:  "random-float",
				Count: h.Fixed(20000, 6000000),
				Run: func(c *h.Ctx, idx uint64, r *h.Rand) {
					scale := math.Pow(10, float64(r.Range(-2, 4)))
					minx, miny := r.Uniform(-1, 1)*scale, r.Uniform(-1, 1)*scale
					w, ht := r.Uniform(0.05, 1)*scale, r.Uniform(0.05, 1)*scale
					box := [4]float64{minx, miny, minx + w, miny + ht}
					n := r.Range(0, 30)
					if r.P(1, 10) {
						n = r.Range(0, 2)
					}
					line := make([]P, 0, n)
					for i := 0; i < n; i++ {
						var p P
						p[0] = box[0] + r.Uniform(-0.6, 1.6)*w
						p[1] = box[1] + r.Uniform(-0.6, 1.6)*ht
						if r.P(1, 4) { // snap
							switch r.Intn(4) {
							case 0:
								p[0] = box[r.Intn(2)*2]
							case 1:
								p[1] = box[1+r.Intn(2)*2]
							case 2:
								p[0], p[1] = box[r.Intn(2)*2], box[1+r.Intn(2)*2]
							case 3:
								if len(line) > 0 {
									p = line[len(line)-1] // repeated vertex
								}
							}
						}
						if r.P(1, 6) {
							// one float away from a side or a corner of the box, inside or outside: cuts are rounded onto the
							// very line the vertex's other coordinate lies on
							k := r.Intn(3)
							if k != 1 {
								p[0] = math.Nextafter(box[r.Intn(2)*2], []float64{math.Inf(-1), math.Inf(1)}[r.Intn(2)])
							}
							if k != 0 {
								p[1] = box[1+r.Intn(2)*2]
								if r.Bool() {
									p[1] = math.Nextafter(p[1], []float64{math.Inf(-1), math.Inf(1)}[r.Intn(2)])
								}
							}
						}
						if r.P(1, 8) && len(line) > 0 { // axis-parallel step from the previous vertex
							if r.Bool() {
								p[0] = line[len(line)-1][0]
							} else {
								p[1] = line[len(line)-1][1]
							}
						}
						if len(line) > 0 {
							// (a segment whose ends differ by a few floats in one coordinate runs within rounding of a box line: where it
							// crosses that line is decided by the rounding of the first cut, no answer is stable there. Such pairs are
							// made exactly axis-parallel instead.)
							for k := 0; k < 2; k++ {
								if q := line[len(line)-1][k]; p[k] != q && math.Abs(p[k]-q) <= 64*math.Abs(math.Nextafter(q, math.Inf(1))-q) {
									p[k] = q
								}
							}
						}
						line = append(line, p)
					}
					tol := 1e-9 * math.Max(maxAbs(line), math.Max(math.Abs(box[2]), math.Abs(box[3])))
					c.Note([]byte(fmt.Sprintf("box=%v line=%v", box, line)))
					if c07check(c, box, line, tol, true) {
						c.Nontrivial(h.Mix(hashP(line), h.HashFloats(box[:]...)))
					}
					if r.P(1, 4) {
						// the same scene in another unit (every number times 2^k, exact, far from overflow and underflow): the
						// same pieces in the new unit, bit for bit, with either option
						k := r.Range(1, 400)
						if r.Bool() {
							k = -k
						}
						f := math.Ldexp(1, k)
						b1, b2 := boundOf(box[0], box[1], box[2], box[3]), boundOf(box[0]*f, box[1]*f, box[2]*f, box[3]*f)
						l1 := pToLS(line)
						l2 := make(orb.LineString, len(l1))
						for i, p := range l1 {
							l2[i] = orb.Point{p[0] * f, p[1] * f}
						}
						for _, open := range []bool{false, true} {
							o1, o2 := clip.LineString(b1, l1.Clone(), clip.OpenBound(open)), clip.LineString(b2, l2, clip.OpenBound(open))
							c.Evals(2)
							want := refProject(refmodel.Copy(o1), func(p orb.Point) orb.Point { return orb.Point{p[0] * f, p[1] * f} })
							if !refmodel.EqualBits(o2, want) {
								c.Fail("", "the same scene in another unit (all numbers times a power of two) is clipped differently", map[string]interface{}{"case": c07case{box, line, open}, "power_of_two": k, "pieces": sv(o1), "pieces_in_the_other_unit": sv(o2)})
								break
							}
						}
						c.Count("scenes_repeated_in_another_unit", 1)
					}
					if c.WantSample() {
						c.Sample(c07case{box, line, false})
					}
				},
			},
		},
	})
}
