package mon

import (
	"bytes"
	"compress/gzip"
	"encoding/binary"
	"encoding/hex"
	"encoding/json"
	"fmt"
	"io"
	"io/ioutil"
	"math"
	"runtime"
	"runtime/metrics"
	"strings"

	"github.com/paulmach/orb"
	"github.com/paulmach/orb/encoding/ewkb"
	"github.com/paulmach/orb/encoding/mvt"
	"github.com/paulmach/orb/encoding/wkb"
	"github.com/paulmach/orb/encoding/wkt"
	"github.com/paulmach/orb/geojson"
	"go.mongodb.org/mongo-driver/bson"
	"go.mongodb.org/mongo-driver/bson/primitive"

	"verif/internal/gen"
	"verif/internal/h"
	"verif/internal/refmodel"
)

// C05 — decoders never panic and never over-allocate on hostile input.
//
// Observed events per call: recovered panic, worker death (fatal error, out of memory
// under the address space limit, stack overflow — attributed by the runner through the
// progress file), CPU budget overrun, allocation above A(n) = 4 MiB + 4096*n bytes, and
// for WKB instability of decode(encode(decode(x))).

type c05dec struct {
	name   string
	family string // wkb, wkt, json, bson, mvt
	f      func(in []byte) (interface{}, error)
}

var c05sample = []metrics.Sample{{Name: "/gc/heap/allocs:bytes"}}

func allocBytes() uint64 {
	metrics.Read(c05sample)
	return c05sample[0].Value.Uint64()
}

// allocExact flushes the per-P allocation caches (the metrics counter lags by up to a cache's worth of small objects).
func allocExact() uint64 {
	var ms runtime.MemStats
	runtime.ReadMemStats(&ms)
	return ms.TotalAlloc
}

func c05decoders() []c05dec {
	var ds []c05dec
	add := func(n, fam string, f func([]byte) (interface{}, error)) { ds = append(ds, c05dec{n, fam, f}) }
	add("wkb.Unmarshal", "wkb", func(b []byte) (interface{}, error) { return wkb.Unmarshal(b) })
	add("ewkb.Unmarshal", "wkb", func(b []byte) (interface{}, error) { g, _, err := ewkb.Unmarshal(b); return g, err })
	add("wkb.Decoder", "wkb", func(b []byte) (interface{}, error) {
		d := wkb.NewDecoder(bytes.NewReader(b))
		var last orb.Geometry
		for i := 0; i < 1000; i++ {
			g, err := d.Decode()
			if err != nil {
				if i == 0 {
					return nil, err
				}
				return last, nil
			}
			last = g
		}
		return last, nil
	})
	add("ewkb.Decoder", "wkb", func(b []byte) (interface{}, error) {
		d := ewkb.NewDecoder(bytes.NewReader(b))
		var last orb.Geometry
		for i := 0; i < 1000; i++ {
			g, _, err := d.Decode()
			if err != nil {
				if i == 0 {
					return nil, err
				}
				return last, nil
			}
			last = g
		}
		return last, nil
	})
	for k := 0; k < 10; k++ {
		k := k
		add("wkb.Scanner("+c01destNames[k]+")", "wkb", func(b []byte) (interface{}, error) {
			var d c01dest
			s := wkb.Scanner(d.ptr(k))
			err := s.Scan(b)
			return s.Geometry, err
		})
		add("ewkb.Scanner("+c01destNames[k]+")", "wkb", func(b []byte) (interface{}, error) {
			var d c01dest
			s := ewkb.Scanner(d.ptr(k))
			err := s.Scan(b)
			return s.Geometry, err
		})
	}
	add("ewkb.ScannerPrefixSRID(nil)", "wkb", func(b []byte) (interface{}, error) {
		s := ewkb.ScannerPrefixSRID(nil)
		err := s.Scan(b)
		return s.Geometry, err
	})
	add("ewkb.ScannerPrefixSRID(*Polygon)", "wkb", func(b []byte) (interface{}, error) {
		var p orb.Polygon
		s := ewkb.ScannerPrefixSRID(&p)
		err := s.Scan(b)
		return s.Geometry, err
	})
	add("wkt.Unmarshal", "wkt", func(b []byte) (interface{}, error) { return wkt.Unmarshal(string(b)) })
	add("wkt.UnmarshalPoint", "wkt", func(b []byte) (interface{}, error) { return wkt.UnmarshalPoint(string(b)) })
	add("wkt.UnmarshalMultiPoint", "wkt", func(b []byte) (interface{}, error) { return wkt.UnmarshalMultiPoint(string(b)) })
	add("wkt.UnmarshalLineString", "wkt", func(b []byte) (interface{}, error) { return wkt.UnmarshalLineString(string(b)) })
	add("wkt.UnmarshalMultiLineString", "wkt", func(b []byte) (interface{}, error) { return wkt.UnmarshalMultiLineString(string(b)) })
	add("wkt.UnmarshalPolygon", "wkt", func(b []byte) (interface{}, error) { return wkt.UnmarshalPolygon(string(b)) })
	add("wkt.UnmarshalMultiPolygon", "wkt", func(b []byte) (interface{}, error) { return wkt.UnmarshalMultiPolygon(string(b)) })
	add("wkt.UnmarshalCollection", "wkt", func(b []byte) (interface{}, error) { return wkt.UnmarshalCollection(string(b)) })
	add("geojson.UnmarshalGeometry", "json", func(b []byte) (interface{}, error) {
		g, err := geojson.UnmarshalGeometry(b)
		if err != nil {
			return nil, err
		}
		return g.Geometry(), nil
	})
	add("geojson.UnmarshalFeature", "json", func(b []byte) (interface{}, error) { return geojson.UnmarshalFeature(b) })
	add("geojson.UnmarshalFeatureCollection", "json", func(b []byte) (interface{}, error) { return geojson.UnmarshalFeatureCollection(b) })
	add("json.Unmarshal(*geojson.Geometry)", "json", func(b []byte) (interface{}, error) {
		g := &geojson.Geometry{}
		if err := json.Unmarshal(b, g); err != nil {
			return nil, err
		}
		return g.Geometry(), nil
	})
	helpers := []struct {
		n string
		f func() interface{}
	}{
		{"Point", func() interface{} { return &geojson.Point{} }}, {"MultiPoint", func() interface{} { return &geojson.MultiPoint{} }},
		{"LineString", func() interface{} { return &geojson.LineString{} }}, {"MultiLineString", func() interface{} { return &geojson.MultiLineString{} }},
		{"Polygon", func() interface{} { return &geojson.Polygon{} }}, {"MultiPolygon", func() interface{} { return &geojson.MultiPolygon{} }},
	}
	for _, hp := range helpers {
		hp := hp
		add("json.Unmarshal(*geojson."+hp.n+")", "json", func(b []byte) (interface{}, error) { v := hp.f(); return v, json.Unmarshal(b, v) })
		add("bson.Unmarshal(*geojson."+hp.n+")", "bson", func(b []byte) (interface{}, error) { v := hp.f(); return v, bson.Unmarshal(b, v) })
	}
	add("bson.Unmarshal(*geojson.Geometry)", "bson", func(b []byte) (interface{}, error) {
		g := &geojson.Geometry{}
		if err := bson.Unmarshal(b, g); err != nil {
			return nil, err
		}
		return g.Geometry(), nil
	})
	add("bson.Unmarshal(*geojson.Feature)", "bson", func(b []byte) (interface{}, error) { f := &geojson.Feature{}; return f, bson.Unmarshal(b, f) })
	add("bson.Unmarshal(*geojson.FeatureCollection)", "bson", func(b []byte) (interface{}, error) {
		f := &geojson.FeatureCollection{}
		return f, bson.Unmarshal(b, f)
	})
	add("mvt.Unmarshal", "mvt", func(b []byte) (interface{}, error) { return mvt.Unmarshal(b) })
	add("mvt.UnmarshalGzipped", "mvt", func(b []byte) (interface{}, error) { return mvt.UnmarshalGzipped(b) })
	return ds
}

var c05decs = c05decoders()

func gunzipLen(b []byte) int {
	zr, err := gzip.NewReader(bytes.NewReader(b))
	if err != nil {
		return 0
	}
	n, _ := io.Copy(ioutil.Discard, io.LimitReader(zr, 1<<28))
	return int(n)
}

// c05run hands one input to every decoder of the family and judges the observed events.
func c05run(c *h.Ctx, family string, in []byte, what string) {
	c.Note(in)
	for i := range c05decs {
		d := &c05decs[i]
		if d.family != family {
			continue
		}
		cp := append([]byte{}, in...) // the scanners decode hex in place
		n := len(in)
		if d.name == "mvt.UnmarshalGzipped" {
			n += gunzipLen(in)
		}
		var val interface{}
		var err error
		a0 := allocBytes()
		pv, st := h.Catch(func() { val, err = d.f(cp) })
		a1 := allocBytes()
		c.Eval()
		det := func() map[string]interface{} {
			x := in
			if len(x) > 4096 {
				x = x[:4096]
			}
			m := map[string]interface{}{"decoder": d.name, "input_hex": hex.EncodeToString(x), "input_len": len(in), "how": what}
			if family == "wkt" || family == "json" {
				m["input_text"] = string(x)
			}
			return m
		}
		if pv != nil {
			key := ""
			if family == "bson" {
				fr := h.InnermostFrame(st)
				msg := fmt.Sprint(pv)
				if strings.HasPrefix(fr, "go.mongodb.org/mongo-driver/") && (strings.Contains(msg, "index out of range") || strings.Contains(msg, "slice bounds out of range")) {
					key = "C05/bson-driver-panic"
				}
			}
			c.Fail(key, "a decoder panicked", map[string]interface{}{"case": det(), "panic": sv(pv), "stack": st})
			continue
		}
		limit := uint64(4<<20) + 4096*uint64(n)
		if what == "gzip of gzip of zeros" {
			// (nothing in there for a tile decoder to build anything from: the inflated first level is a gzip stream, not a tile)
			limit = uint64(4<<20) + 16*uint64(n)
		}
		used := a1 - a0
		c.Max("max_alloc_bytes_per_input_byte_(inputs_>=_64_bytes)", allocRatio(used, n), func() string { return d.name + " " + what })
		if used > limit {
			c.Fail("", "a decoder allocated more than 4 MiB + 4096 bytes per input byte", map[string]interface{}{"case": det(), "allocated_bytes": used, "limit": limit})
			continue
		}
		if err == nil && val == nil && (strings.HasSuffix(d.name, ".Unmarshal") || strings.HasSuffix(d.name, ".Decoder") || strings.HasPrefix(d.name, "wkt.")) && d.family != "mvt" {
			// "returns either a value or an error": the one-shot and stream decoders and the text parsers have no way
			// of saying NULL (the scanners do: Valid == false)
			c.Fail("", "a decoder returned neither a value nor an error", map[string]interface{}{"case": det()})
			continue
		}
		if err == nil {
			c.Count("decoded_without_error", 1)
			// WKB: re-encoding the value and decoding again is stable
			if g, ok := val.(orb.Geometry); ok && family == "wkb" {
				var g2 orb.Geometry
				var e2 error
				pv, st := h.Catch(func() {
					var data []byte
					data, e2 = wkb.Marshal(g)
					if e2 == nil && data != nil {
						g2, e2 = wkb.Unmarshal(data)
					} else if e2 == nil {
						g2 = nil
					}
				})
				c.Eval()
				if pv != nil {
					c.Fail("", "re-encoding a decoded WKB value panicked", map[string]interface{}{"case": det(), "value": sv(g), "panic": sv(pv), "stack": st})
				} else if e2 != nil || !(refmodel.EqualBits(refmodel.Norm(g), g2) || (g2 == nil && refmodel.NumVertices(g) == 0 && isNilSliceOrNil(g))) {
					c.Fail("", "decode(encode(decode(x))) differs from decode(x) for WKB", map[string]interface{}{"case": det(), "first": sv(g), "second": sv(g2), "err": sv(e2)})
				}
			}
		} else {
			c.Count("rejected_with_error", 1)
		}
	}
}

func isNilSliceOrNil(g orb.Geometry) bool { return g == nil || isNilSlice(g) }

func allocRatio(used uint64, n int) float64 {
	if n < 64 {
		return 0
	}
	return float64(used) / float64(n)
}

// ---------------- input construction

var c05wktTokens = []string{"POINT", "MULTIPOINT", "LINESTRING", "MULTILINESTRING", "POLYGON", "MULTIPOLYGON", "GEOMETRYCOLLECTION", "EMPTY", "(", ")", ",", " ", "1", "1 2", "1e3", "Z"}

func le32(v uint32) []byte { b := make([]byte, 4); binary.LittleEndian.PutUint32(b, v); return b }
func be32(v uint32) []byte { b := make([]byte, 4); binary.BigEndian.PutUint32(b, v); return b }

var c05wkbTypes = func() []uint32 {
	var ts []uint32
	for t := uint32(0); t <= 8; t++ {
		ts = append(ts, t, t|0x20000000, t|0x10, t|0x80000000)
	}
	return append(ts, 1001, 0xffffffff, 0x20000007)
}()
var c05counts = []uint32{0, 1, 2, 1 << 28, 1<<28 + 1, 1 << 31, 1<<32 - 1, 1<<27 + 3}

// c05wkbHeaderCase enumerates bo x type x count x payload and returns the message.
func c05wkbHeaderCase(idx uint64) ([]byte, string) {
	bos := []byte{0, 1, 2, 0xff}
	nb, nt, nc := uint64(len(bos)), uint64(len(c05wkbTypes)), uint64(len(c05counts))
	bo := bos[idx%nb]
	t := c05wkbTypes[(idx/nb)%nt]
	cnt := c05counts[(idx/nb/nt)%nc]
	payload := (idx / nb / nt / nc) % 4
	enc := le32
	if bo == 0 {
		enc = be32
	}
	msg := []byte{bo}
	msg = append(msg, enc(t)...)
	if t&0x20000000 != 0 {
		msg = append(msg, enc(4326)...)
	}
	if t&0x0f != 1 { // not a point: a count follows
		msg = append(msg, enc(cnt)...)
	}
	pt := make([]byte, 16)
	binary.LittleEndian.PutUint64(pt, math.Float64bits(1.5))
	binary.LittleEndian.PutUint64(pt[8:], math.Float64bits(-2.25))
	switch payload {
	case 1:
		msg = append(msg, pt...)
	case 2: // one nested member: a point
		msg = append(msg, bo)
		msg = append(msg, enc(1)...)
		msg = append(msg, pt...)
	case 3: // one nested ring/line with a count and a point
		msg = append(msg, enc(cnt)...)
		msg = append(msg, pt...)
	}
	return msg, fmt.Sprintf("wkb header bo=%#x type=%#x count=%d payload=%d", bo, t, cnt, payload)
}

func c05validEncodings(r *h.Rand) (wkbB, wktB, jsonB, bsonB, mvtB, gzB []byte) {
	o := &gen.GeomOpts{Float: gen.FloatOrdinary, Empty: true, RingBound: true}
	g := o.Geometry(r, r.Intn(4))
	wkbB, _ = ewkb.Marshal(g, []int{0, 4326}[r.Intn(2)], []binary.ByteOrder{binary.LittleEndian, binary.BigEndian}[r.Intn(2)])
	wktB = wkt.Marshal(g)
	f := geojson.NewFeature(g)
	f.ID = "id1"
	f.Properties = geojson.Properties(c02object(r, 2, false))
	switch r.Intn(3) {
	case 0:
		jsonB, _ = geojson.NewGeometry(g).MarshalJSON()
		bsonB, _ = bson.Marshal(geojson.NewGeometry(g))
	case 1:
		jsonB, _ = json.Marshal(f)
		bsonB, _ = bson.Marshal(f)
	default:
		fc := geojson.NewFeatureCollection()
		fc.Append(f)
		fc.Append(geojson.NewFeature(orb.Point{1, 2}))
		fc.ExtraMembers = geojson.Properties{"x": 1.5}
		jsonB, _ = json.Marshal(fc)
		bsonB, _ = bson.Marshal(fc)
	}
	layers := c03layers(r, false)
	mvtB, _ = mvt.Marshal(layers)
	gzB, _ = mvt.MarshalGzipped(layers)
	return
}

// mutate applies one generic byte-level mutation.
func c05mutateBytes(r *h.Rand, b []byte, other []byte) ([]byte, string) {
	b = append([]byte{}, b...)
	switch r.Intn(8) {
	case 0:
		if len(b) > 0 {
			return b[:r.Intn(len(b))], "truncate"
		}
	case 1:
		if len(b) > 0 && len(other) > 0 {
			return append(b[:r.Intn(len(b))], other[r.Intn(len(other)):]...), "splice"
		}
	case 2:
		for k := r.Range(1, 8); k > 0 && len(b) > 0; k-- {
			b[r.Intn(len(b))] ^= 1 << uint(r.Intn(8))
		}
		return b, "bit flips"
	case 3, 4:
		if len(b) >= 4 {
			v := []uint32{0, 1, 1 << 28, 1<<28 + 1, 1 << 31, 1<<32 - 1, 0x7fffffff, 1 << 24, uint32(len(b))}[r.Intn(9)]
			if r.P(1, 4) { // a count whose product with an element size wraps around 2^32
				k := uint64(r.Range(2, 64))
				v = uint32((uint64(1)<<32+k-1)/k) + uint32(r.Intn(2))
			}
			at := r.Intn(len(b) - 3)
			if r.Bool() {
				copy(b[at:], le32(v))
			} else {
				copy(b[at:], be32(v))
			}
			return b, "count overwrite"
		}
	case 5:
		if len(b) > 0 {
			at := r.Intn(len(b))
			return append(b[:at], append([]byte{byte(r.Intn(256))}, b[at:]...)...), "insert byte"
		}
	case 6:
		if len(b) > 1 {
			at := r.Intn(len(b) - 1)
			return append(b[:at], b[at+1:]...), "delete byte"
		}
	default:
		if len(b) > 0 {
			at := r.Intn(len(b))
			n := r.Range(1, 6)
			return append(b[:at], append(bytes.Repeat(b[at:at+1], n), b[at:]...)...), "repeat byte"
		}
	}
	return b, "unchanged"
}

// c05bsonOnly replaces some leaves of a decoded JSON document by values of the BSON types JSON does not have.
func c05bsonOnly(r *h.Rand, v interface{}) (n int) {
	odd := func() interface{} {
		d128, _ := primitive.ParseDecimal128([]string{"1.5", "-0", "NaN", "Infinity", "12345678901234567890.123456789", "1E+6000"}[r.Intn(6)])
		switch r.Intn(16) {
		case 0, 1, 2:
			return d128
		case 3:
			return primitive.NewObjectID()
		case 4:
			return primitive.DateTime(r.Range(-1000, 1000))
		case 5:
			return primitive.Timestamp{T: uint32(r.Intn(9)), I: uint32(r.Intn(9))}
		case 6:
			return primitive.Regex{Pattern: "a.*", Options: "i"}
		case 7:
			return primitive.Binary{Subtype: byte(r.Intn(6)), Data: []byte{1, 2, 3}}
		case 8:
			return primitive.MinKey{}
		case 9:
			return primitive.MaxKey{}
		case 10:
			return primitive.Undefined{}
		case 11:
			return primitive.JavaScript("x=1")
		case 12:
			return primitive.Symbol("Point")
		case 13:
			return primitive.CodeWithScope{Code: "x", Scope: bson.D{{Key: "x", Value: 1}}}
		case 14:
			return int32(r.Range(-3, 3))
		}
		return int64(r.Range(-3, 3)) << uint(r.Intn(40))
	}
	var walk func(v interface{}) interface{}
	walk = func(v interface{}) interface{} {
		switch t := v.(type) {
		case map[string]interface{}:
			for k := range t {
				t[k] = walk(t[k])
			}
			return t
		case []interface{}:
			for i := range t {
				t[i] = walk(t[i])
			}
			return t
		}
		if r.P(1, 5) {
			n++
			return odd()
		}
		return v
	}
	walk(v)
	return n
}

func c05mutateJSON(r *h.Rand, b []byte) ([]byte, string) {
	var v interface{}
	if json.Unmarshal(b, &v) != nil {
		return b, "unchanged"
	}
	// collect paths to nodes
	type ref struct {
		set func(interface{})
		del func()
	}
	var refs []ref
	var walk func(x interface{}, set func(interface{}), del func())
	walk = func(x interface{}, set func(interface{}), del func()) {
		refs = append(refs, ref{set, del})
		switch t := x.(type) {
		case map[string]interface{}:
			for k, e := range t {
				k := k
				walk(e, func(n interface{}) { t[k] = n }, func() { delete(t, k) })
			}
		case []interface{}:
			for i, e := range t {
				i := i
				walk(e, func(n interface{}) { t[i] = n }, func() { t[i] = nil })
			}
		}
	}
	walk(v, func(n interface{}) { v = n }, func() { v = nil })
	rf := refs[r.Intn(len(refs))]
	how := ""
	switch r.Intn(9) {
	case 0:
		rf.set(nil)
		how = "json: value -> null"
	case 1:
		rf.set([]interface{}{})
		how = "json: value -> []"
	case 2:
		rf.set(map[string]interface{}{})
		how = "json: value -> {}"
	case 3:
		var deep interface{} = 1.0
		for i := r.Range(1, 64); i > 0; i-- {
			deep = []interface{}{deep}
		}
		rf.set(deep)
		how = "json: value -> deep array"
	case 4:
		rf.del()
		how = "json: member dropped"
	case 5:
		rf.set("Point")
		how = "json: value -> string"
	case 6:
		rf.set(1e300)
		how = "json: value -> number"
	case 7:
		rf.set([]interface{}{nil, []interface{}{nil}, []interface{}{1.0}, "x"})
		how = "json: value -> mixed array"
	default:
		rf.set(map[string]interface{}{"type": []string{"Point", "GeometryCollection", "Polygon", "Feature", "MultiPolygon"}[r.Intn(5)], "coordinates": nil, "geometries": []interface{}{nil}})
		how = "json: value -> odd geometry object"
	}
	out, err := json.Marshal(v)
	if err != nil {
		return b, "unchanged"
	}
	return out, how
}

// minimal protobuf writer for hostile vector tiles
func pbVarint(v uint64) []byte {
	var b []byte
	for v >= 0x80 {
		b = append(b, byte(v)|0x80)
		v >>= 7
	}
	return append(b, byte(v))
}
func pbTag(field, wire int) []byte { return pbVarint(uint64(field<<3 | wire)) }
func pbBytes(field int, b []byte) []byte {
	return append(append(pbTag(field, 2), pbVarint(uint64(len(b)))...), b...)
}
func pbUint(field int, v uint64) []byte { return append(pbTag(field, 0), pbVarint(v)...) }
func pbPacked(field int, vs []uint32) []byte {
	var p []byte
	for _, v := range vs {
		p = append(p, pbVarint(uint64(v))...)
	}
	return pbBytes(field, p)
}

func c05hostileTile(r *h.Rand) ([]byte, string) {
	cmd := func() uint32 {
		id := []uint32{1, 1, 2, 2, 7, 7, 0, 3, 5}[r.Intn(9)]
		cnt := []uint32{0, 1, 1, 2, 3, 1<<29 - 1, 1 << 28, 1 << 22, 1 << 20, 1000, uint32(r.Intn(8))}[r.Intn(11)]
		return cnt<<3 | id
	}
	sloppy := r.P(1, 4) // also damage the layer's other fields
	var layer []byte
	if !sloppy || r.P(9, 10) {
		layer = append(layer, pbBytes(1, []byte("l"))...)
	}
	nf := r.Range(1, 3)
	for i := 0; i < nf; i++ {
		var feat []byte
		if r.Bool() {
			feat = append(feat, pbUint(1, uint64(r.Intn(100)))...)
		}
		if r.P(2, 3) {
			feat = append(feat, pbPacked(2, []uint32{uint32(r.Intn(4)), uint32(r.Intn(4)), uint32(r.Intn(300))})...)
		}
		if r.P(9, 10) {
			feat = append(feat, pbUint(3, uint64([]int{1, 1, 2, 3, 0, 4}[r.Intn(6)]))...)
		}
		if r.P(1, 3) {
			// well-formed command structure with degenerate parts: 1..3 rings / lines, each moveTo(1) + lineTo(k) with
			// k in 0..3 and (almost always) exactly k coordinate pairs, with or without closePath
			var geom []uint32
			for rings := r.Range(1, 3); rings > 0; rings-- {
				geom = append(geom, 1<<3|1, uint32(r.Intn(40)), uint32(r.Intn(40)))
				k := uint32(r.Intn(4))
				geom = append(geom, k<<3|2)
				pairs := int(k)
				if r.P(1, 10) {
					pairs += r.Range(-1, 1)
				}
				for ; pairs > 0; pairs-- {
					geom = append(geom, uint32(r.Intn(40)), uint32(r.Intn(40)))
				}
				if r.P(3, 4) {
					geom = append(geom, uint32(r.Range(1, 2))<<3|7)
				}
			}
			feat = append(feat, pbPacked(4, geom)...)
		} else if r.P(9, 10) {
			geom := []uint32{cmd()}
			for k := r.Range(0, 8); k > 0; k-- {
				if r.P(1, 3) {
					geom = append(geom, cmd())
				} else {
					geom = append(geom, uint32(r.Intn(200)), []uint32{0, 1, 0xffffffff, 0x7fffffff, 2}[r.Intn(5)])
				}
			}
			if r.P(1, 10) {
				feat = append(feat, pbBytes(4, nil)...)
			} else {
				feat = append(feat, pbPacked(4, geom)...)
			}
		}
		if r.P(1, 12) {
			feat = append(feat, pbTag(4, 0)...) // wrong wire type for geometry
			feat = append(feat, pbVarint(7)...)
		}
		layer = append(layer, pbBytes(2, feat)...)
	}
	for k := r.Intn(3); k > 0; k-- {
		layer = append(layer, pbBytes(3, []byte("key"))...)
	}
	for k := r.Intn(3); k > 0; k-- {
		vals := [][]byte{pbBytes(1, []byte("s")), pbUint(4, 5), pbUint(7, 1), append(pbTag(3, 1), 0, 0, 0, 0, 0, 0, 0xf0, 0x3f)}
		if sloppy {
			vals = append(vals, pbTag(2, 5), nil)
		}
		layer = append(layer, pbBytes(4, vals[r.Intn(len(vals))])...)
	}
	if r.Bool() {
		exts := []uint64{4096, 256}
		if sloppy {
			exts = append(exts, 0, 1<<32, 1<<64-1)
		}
		layer = append(layer, pbUint(5, exts[r.Intn(len(exts))])...)
	}
	if r.Bool() {
		layer = append(layer, pbUint(15, uint64(r.Intn(3)))...)
	}
	tile := pbBytes(3, layer)
	if sloppy && r.P(1, 3) {
		tile = append(tile, pbBytes(3, layer[:r.Intn(len(layer)+1)])...)
	}
	if sloppy && r.P(1, 3) {
		tile = append(tile, pbTag(r.Range(1, 20), r.Intn(6))...)
	}
	return tile, "hand-built hostile tile"
}

type c05witness struct {
	family, what string
	in           []byte
}

func c05witnesses() []c05witness {
	hx := func(s string) []byte { b, _ := hex.DecodeString(strings.Replace(s, " ", "", -1)); return b }
	tile := func(typ uint64, geom []uint32) []byte {
		feat := append(pbUint(3, typ), pbPacked(4, geom)...)
		return pbBytes(3, append(pbBytes(1, []byte("a")), pbBytes(2, feat)...))
	}
	return []c05witness{
		{"wkb", "line string with count 2^28 (uint32 overflow of count*16, 0f4fa04)", hx("01 02000000 00000010")},
		{"wkb", "multi point with count 2^28", hx("01 04000000 00000010")},
		{"wkb", "polygon ring with count 2^28", hx("01 03000000 01000000 00000010")},
		{"mvt", "one byte gzip magic (8749fb3)", []byte{0x1f}},
		{"mvt", "feature without geometry field (712b9ae)", hx("1a 02 12 00")},
		{"mvt", "POINT feature, closePath command with count 2^29-1 (82a3f06)", tile(1, []uint32{0xFFFFFFFF, 0})},
		{"mvt", "POINT feature, moveTo claiming 2^22 points", tile(1, []uint32{1<<22<<3 | 1, 2, 2})},
		{"mvt", "POINT feature, moveTo claiming 2^29-1 points", tile(1, []uint32{(1<<29-1)<<3 | 1, 2, 2})},
		{"mvt", "LINESTRING feature, lineTo claiming 2^29-1 points", tile(2, []uint32{1<<3 | 1, 2, 2, (1<<29-1)<<3 | 2, 2, 2})},
		{"json", "geometry collection with a null member (348e895)", []byte(`{"type":"GeometryCollection","geometries":[null]}`)},
		{"json", "feature whose geometry is a collection with a null member", []byte(`{"type":"Feature","geometry":{"type":"GeometryCollection","geometries":[null,{"type":"Point","coordinates":[1,2]}]},"properties":null}`)},
		{"json", "null into the helper types (66be8fd)", []byte(`null`)},
		{"json", "coordinates null", []byte(`{"type":"LineString","coordinates":null}`)},
		{"json", "null with leading white space into UnmarshalFeature (9f03c28)", []byte(" null")},
		{"json", "null with trailing new line", []byte("null\n")},
		{"json", "null with leading new line", []byte("\nnull")},
		{"wkt", "keyword and a lone opening bracket", []byte("POINT(")},
		{"wkt", "polygon with a lone bracket member", []byte("POLYGON((1 2,3 4),()")},
		{"wkt", "collection with a lone bracket member", []byte("GEOMETRYCOLLECTION(POINT()")},
		{"wkt", "collection member with exponent (aa82d9e)", []byte("GEOMETRYCOLLECTION(POINT(1e+21 1))")},
	}
}

func nestWKB(r *h.Rand, inner []byte, k int) []byte {
	out := inner
	for i := 0; i < k; i++ {
		hd := []byte{1}
		hd = append(hd, le32(7)...)
		hd = append(hd, le32(1)...)
		out = append(hd, out...)
	}
	return out
}

func init() {
	h.Register(&h.Monitor{
		ID: "C05",
		Rule: "exhaustive short inputs (every 0/1/2-byte string through both vector-tile entry points; every WKB message byte-order {0,1,2,0xff} x type word {0..8, EWKB/flag variants, 1001, ...} x boundary counts {0,1,2,2^27+3,2^28,2^28+1,2^31,2^32-1} x 4 payloads and every prefix of it through all 24 WKB paths; every prefix of two-member multi geometries / collections whose member header carries EWKB flags (with and without the announced SRID bytes), the other byte order or another type; every WKT sentence of <= 4 (quick) / <= 5 (thorough) tokens over a 16-token alphabet through the 8 parsers; every one-token insertion, deletion and replacement (12 tokens) at every position of 10 valid sentences of all kinds) plus structure-aware mutations (truncate, splice, bit flips, count overwrite, insert/delete/repeat, collection nesting to 64 levels, JSON value replacement / member dropping / deep arrays, BSON length corruption, hand-built hostile tiles with arbitrary command words, counts and wire types, gzip damage) of valid encodings of generated geometries, features and layer sets, through all 58 decoder entry points. " +
			"non-trivial = an input that at least one decoder of its family accepts or that has >= 8 bytes; distinct = hash of (family, input)",
		MinNontrivial: h.Fixed(100000, 2000000),
		Assumptions: []string{
			"allocation bound A(n) = 4 MiB + 4096 bytes per input byte (for UnmarshalGzipped n includes the decompressed length); measured with runtime/metrics /gc/heap/allocs:bytes around each call in a single-goroutine worker",
			"'never loops forever' is observed as the per-case CPU budget (20 s of process CPU time) enforced by the runner; fatal errors (out of memory under RLIMIT_AS 3 GiB, stack overflow) are attributed through the progress file",
			"known finding C05/bson-driver-panic covers only panics whose innermost non-runtime frame is inside go.mongodb.org/mongo-driver with an index/slice-bounds message, through a BSON entry point",
		},
		Subs: []h.Sub{
			{
				// witnesses of the defects repaired in /repo (fix: commits) and of seeded changes: permanent regression cases
				Name: "regression-witnesses", Count: func(string) uint64 { return uint64(len(c05witnesses())) }, Exhaustive: h.Always,
				Run: func(c *h.Ctx, idx uint64, r *h.Rand) {
					w := c05witnesses()[idx]
					c05run(c, w.family, w.in, "regression witness: "+w.what)
					c.Nontrivial(h.Mix(9, idx))
					c.Sample(map[string]interface{}{"family": w.family, "witness": w.what, "input_hex": hex.EncodeToString(w.in)})
				},
			},
			{
				Name: "mvt-all-short-inputs", Count: h.Fixed(65793, 65793), Exhaustive: h.Always,
				Run: func(c *h.Ctx, idx uint64, r *h.Rand) {
					var in []byte
					switch {
					case idx == 0:
					case idx <= 256:
						in = []byte{byte(idx - 1)}
					default:
						in = []byte{byte((idx - 257) >> 8), byte(idx - 257)}
					}
					c05run(c, "mvt", in, "every 0-2 byte string")
					if idx%4099 == 1 {
						c.Nontrivial(h.Mix(1, idx))
						c.Sample(map[string]interface{}{"family": "mvt", "input_hex": hex.EncodeToString(in)})
					}
					c.Nontrivial(h.Mix(1, idx))
				},
			},
			{
				Name: "wkb-header-matrix", Count: func(string) uint64 { return uint64(4 * len(c05wkbTypes) * len(c05counts) * 4) }, Exhaustive: h.Always,
				Run: func(c *h.Ctx, idx uint64, r *h.Rand) {
					msg, what := c05wkbHeaderCase(idx)
					for n := 0; n <= len(msg); n++ {
						c05run(c, "wkb", msg[:n], what+fmt.Sprintf(" truncated to %d bytes", n))
					}
					// also as hex text and with a 4 byte prefix
					c05run(c, "wkb", []byte(hex.EncodeToString(msg)), what+" as hex text")
					c05run(c, "wkb", append([]byte("\\x"), []byte(hex.EncodeToString(msg))...), what+" as \\x hex text")
					c05run(c, "wkb", append(le32(4326), msg...), what+" with SRID prefix")
					c.Nontrivial(h.Mix(2, idx))
					if idx%97 == 5 {
						c.Sample(map[string]interface{}{"family": "wkb", "input_hex": hex.EncodeToString(msg), "how": what + ", every prefix"})
					}
				},
			},
			{
				// headers of the *members* of multi geometries and collections: the library's encoders write them plain, a
				// hostile (or foreign) writer sets EWKB flags on them, with or without the SRID bytes the flag announces,
				// flips their byte order or names another type; every prefix of each message goes through every WKB path
				Name: "wkb-member-header-matrix", Count: h.Fixed(4*2*2*2*2*8, 4*2*2*2*2*8), Exhaustive: h.Always,
				Run: func(c *h.Ctx, idx uint64, r *h.Rand) {
					i := idx
					pick := func(n uint64) uint64 { v := i % n; i /= n; return v }
					ctyp := []uint32{4, 5, 6, 7}[pick(4)]
					bo := byte(pick(2))
					topSRID := pick(2) == 1
					otherOrder := pick(2) == 1
					pos := int(pick(2))
					variant := pick(8)
					encOf := func(b byte) func(uint32) []byte {
						if b == 0 {
							return be32
						}
						return le32
					}
					f64 := func(b byte, v float64) []byte {
						out := make([]byte, 8)
						if b == 0 {
							binary.BigEndian.PutUint64(out, math.Float64bits(v))
						} else {
							binary.LittleEndian.PutUint64(out, math.Float64bits(v))
						}
						return out
					}
					enc := encOf(bo)
					var msg []byte
					msg = append(msg, bo)
					if topSRID {
						msg = append(msg, enc(ctyp|0x20000000)...)
						msg = append(msg, enc(4326)...)
					} else {
						msg = append(msg, enc(ctyp)...)
					}
					msg = append(msg, enc(2)...)
					childType := map[uint32]uint32{4: 1, 5: 2, 6: 3, 7: 1}[ctyp]
					for m := 0; m < 2; m++ {
						cbo, word, srid := bo, childType, false
						if m == pos {
							if otherOrder {
								cbo = 1 - bo
							}
							switch variant {
							case 0: // plain
							case 1:
								word, srid = childType|0x20000000, true
							case 2:
								word = childType | 0x20000000 // flag without the bytes it announces
							case 3:
								word = childType | 0x80000000
							case 4:
								word = childType | 0x40000000
							case 5:
								word, srid = childType|0xe0000000, true
							case 6:
								word = childType%7 + 1 // another kind
							case 7:
								word = 1000 + childType
							}
						}
						ce := encOf(cbo)
						msg = append(msg, cbo)
						msg = append(msg, ce(word)...)
						if srid {
							msg = append(msg, ce(4326)...)
						}
						npts := 1
						switch childType {
						case 2:
							msg = append(msg, ce(2)...)
							npts = 2
						case 3:
							msg = append(msg, ce(1)...)
							msg = append(msg, ce(4)...)
							npts = 4
						}
						for k := 0; k < npts; k++ {
							msg = append(msg, f64(cbo, float64(k%2)+0.5)...)
							msg = append(msg, f64(cbo, float64(k/2)+0.25)...)
						}
					}
					what := fmt.Sprintf("container type %d (order %d, top srid %v), member %d: header variant %d, other byte order %v", ctyp, bo, topSRID, pos, variant, otherOrder)
					for n := 0; n <= len(msg); n++ {
						c05run(c, "wkb", msg[:n], what+fmt.Sprintf(" truncated to %d bytes", n))
					}
					c05run(c, "wkb", []byte(hex.EncodeToString(msg)), what+" as hex text")
					c.Nontrivial(h.Mix(5, idx))
					if idx%61 == 7 {
						c.Sample(map[string]interface{}{"family": "wkb", "input_hex": hex.EncodeToString(msg), "how": what + ", every prefix"})
					}
				},
			},
			{
				// element counts c for which c*k wraps around 2^32 (k = per-element size a decoder might multiply by)
				Name: "wkb-wrapping-counts", Count: h.Fixed(63*2*6*2, 63*2*6*2), Exhaustive: h.Always,
				Run: func(c *h.Ctx, idx uint64, r *h.Rand) {
					k := uint64(2 + idx%63)
					cnt := uint32((uint64(1)<<32+k-1)/k) + uint32((idx/63)%2)
					typ := []uint32{4, 2, 3, 5, 6, 7}[(idx/126)%6]
					bo := byte((idx / 756) % 2)
					enc := le32
					if bo == 0 {
						enc = be32
					}
					msg := append([]byte{bo}, enc(typ)...)
					msg = append(msg, enc(cnt)...)
					if typ == 3 { // polygon: one ring with that count
						msg = append([]byte{bo}, enc(typ)...)
						msg = append(msg, enc(1)...)
						msg = append(msg, enc(cnt)...)
					}
					// some payload: a nested point header and coordinates
					pt := make([]byte, 16)
					binary.LittleEndian.PutUint64(pt, math.Float64bits(1.5))
					msg = append(msg, bo)
					msg = append(msg, enc(1)...)
					msg = append(msg, pt...)
					msg = append(msg, pt...)
					c05run(c, "wkb", msg, fmt.Sprintf("count %d = ceil(2^32/%d)+%d, type %d", cnt, k, (idx/63)%2, typ))
					c.Nontrivial(h.Mix(4, idx))
					if idx%211 == 3 {
						c.Sample(map[string]interface{}{"family": "wkb", "input_hex": hex.EncodeToString(msg), "count": cnt, "wraps_with_element_size": k})
					}
				},
			},
			{
				// every text of up to 4 symbols over the alphabet the scanners' framing detection looks at
				// (backslash, x, hex digits of both cases, a non-hex letter, the byte-order bytes), bare and behind a 4-byte SRID prefix
				Name: "scanner-all-short-texts", Count: h.Fixed(2*11111, 2*11111), Exhaustive: h.Always,
				Run: func(c *h.Ctx, idx uint64, r *h.Rand) {
					alphabet := []byte{'\\', 'x', '0', '1', '3', 'a', 'F', 'g', 0x00, 0x01}
					k := idx / 2
					var in []byte
					for n, span := 0, uint64(1); n <= 4; n, span = n+1, span*10 {
						if k < span {
							for i := 0; i < n; i++ {
								in = append(in, alphabet[k%10])
								k /= 10
							}
							break
						}
						k -= span
					}
					what := "short text"
					if idx%2 == 1 {
						in = append([]byte{0xe6, 0x10, 0, 0}, in...)
						what = "short text behind a 4-byte SRID prefix"
					}
					c05run(c, "wkb", in, what)
					c.Nontrivial(h.Mix(0x5ca7, idx))
					if idx%2000 == 7 {
						c.Sample(map[string]interface{}{"input": string(in), "how": what})
					}
				},
			},
			{
				// every one-token edit of valid sentences of every kind: a token inserted at, deleted from or put in place of
				// every position (the short-sentence enumeration stops at 5 tokens; a polygon with a dangling comma has 7)
				Name: "wkt-token-edits", Count: func(string) uint64 { return uint64(len(c05wktEdits())) }, Exhaustive: h.Always,
				Run: func(c *h.Ctx, idx uint64, r *h.Rand) {
					e := c05wktEdits()[idx]
					c05run(c, "wkt", []byte(e.text), e.how)
					c.Nontrivial(h.Mix(6, idx))
					if idx%499 == 3 {
						c.Sample(map[string]interface{}{"family": "wkt", "input_text": e.text, "how": e.how})
					}
				},
			},
			{
				Name: "wkt-all-short-sentences", Count: func(tier string) uint64 {
					if tier == "thorough" {
						return 1 + 16 + 256 + 4096 + 65536 + 1048576
					}
					return 1 + 16 + 256 + 4096 + 65536
				}, Exhaustive: h.Always,
				Run: func(c *h.Ctx, idx uint64, r *h.Rand) {
					// idx enumerates sentences of 0..5 tokens
					n := 0
					rest := idx
					for size := uint64(1); rest >= size; size *= 16 {
						rest -= size
						n++
					}
					var sb strings.Builder
					for i := 0; i < n; i++ {
						sb.WriteString(c05wktTokens[rest%16])
						rest /= 16
					}
					c05run(c, "wkt", []byte(sb.String()), fmt.Sprintf("every sentence of %d tokens", n))
					c.Nontrivial(h.Mix(3, idx))
					if idx%9973 == 11 {
						c.Sample(map[string]interface{}{"family": "wkt", "input_text": sb.String()})
					}
				},
			},
			{
				Name: "mutations", Count: h.Fixed(60000, 6000000),
				Run: func(c *h.Ctx, idx uint64, r *h.Rand) {
					wkbB, wktB, jsonB, bsonB, mvtB, gzB := c05validEncodings(r)
					wkb2, wkt2, json2, bson2, mvt2, gz2 := c05validEncodings(r)
					fam := []string{"wkb", "wkt", "json", "bson", "mvt"}[idx%5]
					var in []byte
					how := ""
					rounds := 1 + r.Geom(0.7, 3)
					switch fam {
					case "wkb":
						in = wkbB
						for k := 0; k < rounds; k++ {
							if r.P(1, 8) {
								in, how = nestWKB(r, in, r.Range(1, 64)), how+"+nest in collections"
							} else {
								var hw string
								in, hw = c05mutateBytes(r, in, wkb2)
								how += "+" + hw
							}
						}
						switch r.Intn(6) {
						case 0:
							in, how = []byte(hex.EncodeToString(in)), how+"+hex text"
						case 1:
							in, how = append([]byte("\\x"), []byte(hex.EncodeToString(in))...), how+"+\\x hex"
						case 2:
							in, how = append(le32(uint32(r.Uint64())), in...), how+"+srid prefix"
						}
					case "wkt":
						in = wktB
						for k := 0; k < rounds; k++ {
							switch r.Intn(4) {
							case 0:
								n := r.Range(1, 64)
								in = []byte(strings.Repeat("GEOMETRYCOLLECTION(", n) + string(in) + strings.Repeat(")", r.Range(0, n)))
								how += "+nest"
							case 1:
								toks := []string{"(", ")", ",", " ", "EMPTY", "((", "))", "1e400", "nan", "-", "POINT", "  ", "\t", "Z", "e", "."}
								at := r.Intn(len(in) + 1)
								in = append(append(append([]byte{}, in[:at]...), toks[r.Intn(len(toks))]...), in[at:]...)
								how += "+insert token"
							default:
								var hw string
								in, hw = c05mutateBytes(r, in, wkt2)
								how += "+" + hw
							}
						}
					case "json":
						in = jsonB
						for k := 0; k < rounds; k++ {
							var hw string
							if r.P(2, 3) {
								in, hw = c05mutateJSON(r, in)
							} else {
								in, hw = c05mutateBytes(r, in, json2)
							}
							how += "+" + hw
						}
					case "bson":
						in = bsonB
						for k := 0; k < rounds; k++ {
							var hw string
							if r.P(1, 3) {
								// go through JSON mutation and back to BSON (structurally odd but well-formed documents)
								var v map[string]interface{}
								mj, h2 := c05mutateJSON(r, jsonB)
								if json.Unmarshal(mj, &v) == nil {
									if r.Bool() {
										// values of the types only BSON has, in place of numbers, strings and members
										h2 += fmt.Sprintf(" + %d values of BSON-only types", c05bsonOnly(r, v))
									}
									if bb, err := bson.Marshal(v); err == nil {
										in, hw = bb, h2+" (as bson)"
									}
								}
							} else {
								in, hw = c05mutateBytes(r, in, bson2)
							}
							how += "+" + hw
						}
					default:
						switch r.Intn(6) {
						case 0, 4, 5:
							in, how = c05hostileTile(r)
						case 1:
							in = gzB
							for k := 0; k < rounds; k++ {
								var hw string
								in, hw = c05mutateBytes(r, in, gz2)
								how += "+gz " + hw
							}
						case 2:
							in, how = gzB[:r.Intn(len(gzB)+1)], "gzip cut"
							if r.Bool() && len(gzB) > 10 {
								in, how = gzB[:10], "gzip header without body"
							}
						default:
							in = mvtB
							for k := 0; k < rounds; k++ {
								var hw string
								in, hw = c05mutateBytes(r, in, mvt2)
								how += "+" + hw
							}
						}
					}
					if fam == "json" && r.P(1, 6) {
						// the documented hooks for another JSON codec, in every combination (both, output side only, input side only)
						switch r.Intn(3) {
						case 0:
							geojson.CustomJSONMarshaler, geojson.CustomJSONUnmarshaler = c02codec{}, c02codec{}
						case 1:
							geojson.CustomJSONMarshaler = c02codec{}
						default:
							geojson.CustomJSONUnmarshaler = c02codec{useNumber: r.Bool()}
						}
						how += "+codec hooks set"
						c.Count("json_inputs_decoded_with_codec_hooks_set", 1)
					}
					if fam == "mvt" && r.P(1, 300) {
						// a gzip stream whose content is again a gzip stream (of a long run of zeros): the second level is not the
						// decoder's business
						var inner, outer bytes.Buffer
						zw := gzip.NewWriter(&inner)
						zw.Write(make([]byte, (8+r.Intn(56))<<20))
						zw.Close()
						zw2 := gzip.NewWriter(&outer)
						zw2.Write(inner.Bytes())
						zw2.Close()
						in, how = outer.Bytes(), "gzip of gzip of zeros"
						c.Count("nested_gzip_inputs", 1)
					}
					c05run(c, fam, in, how)
					geojson.CustomJSONMarshaler, geojson.CustomJSONUnmarshaler = nil, nil
					if len(in) >= 8 {
						c.Nontrivial(h.Mix(h.HashString(fam), h.HashBytes(in)))
						if len(in) < 200 {
							c.Sample(map[string]interface{}{"family": fam, "how": how, "input_hex": hex.EncodeToString(in)})
						}
					}
				},
			},
			{
				// "proportional to the input length": the same valid structure at 16 times the size may not cost more than
				// 4 x 16 times the allocation (a decoder whose cost grows with parts x total size would cost 256 times)
				Name: "allocation-growth-on-large-valid-inputs", Count: func(string) uint64 { return uint64(len(c05shapes) * 5) }, Exhaustive: h.Always, BudgetSec: 120,
				Run: func(c *h.Ctx, idx uint64, r *h.Rand) {
					shape := c05shapes[idx/5]
					fam := []string{"wkb", "wkt", "json", "bson", "mvt"}[idx%5]
					const base, factor = 200, 16
					small, big := c05encode(fam, shape.make(base)), c05encode(fam, shape.make(base*factor))
					if small == nil || big == nil {
						return
					}
					c.Note([]byte(fmt.Sprintf("%s %s x%d", fam, shape.name, base*factor)))
					for i := range c05decs {
						d := &c05decs[i]
						if d.family != fam {
							continue
						}
						measure := func(in []byte) (uint64, error, interface{}) {
							cp := append([]byte{}, in...)
							var err error
							a0 := allocExact()
							pv, _ := h.Catch(func() { _, err = d.f(cp) })
							return allocExact() - a0, err, pv
						}
						us, es, ps := measure(small)
						ub, eb, pb := measure(big)
						c.Evals(2)
						det := map[string]interface{}{"decoder": d.name, "shape": shape.name, "small_elements": base, "small_bytes": len(small), "small_allocated": us, "big_elements": base * factor, "big_bytes": len(big), "big_allocated": ub}
						if ps != nil || pb != nil {
							c.Fail("", "a decoder panicked on a large valid input", map[string]interface{}{"case": det, "panic": sv(ps) + sv(pb)})
							continue
						}
						if (es == nil) != (eb == nil) && !strings.Contains(shape.name, "nested") { // (a depth limit is legitimate)
							c.Fail("", "a decoder accepts a valid structure at one size and rejects it at another", map[string]interface{}{"case": det, "small_err": sv(es), "big_err": sv(eb)})
							continue
						}
						scale := float64(len(big)) / float64(len(small))
						if float64(ub) > 4*scale*float64(us)+float64(1<<20) {
							key := ""
							if (fam == "json" || fam == "bson") && strings.Contains(shape.name, "collections nested") {
								key = "C05/nested-collections-quadratic-allocation"
							}
							c.Fail(key, "allocation grows faster than the input: 16 times the elements cost more than 4 x 16 times the memory", map[string]interface{}{"case": det})
						}
						if es == nil {
							c.Count("large_valid_inputs_decoded", 1)
							c.Max("allocation growth for 16x the elements (x)", float64(ub)/math.Max(float64(us), 1), func() string { return d.name + " " + shape.name })
						}
					}
					c.Nontrivial(h.Mix(h.HashString(fam), h.HashString(shape.name)))
					c.Sample(map[string]interface{}{"family": fam, "shape": shape.name, "small_bytes": len(small), "big_bytes": len(big)})
				},
			},
		},
	})
}

// c05shapes: valid structures parametrised by an element count.
var c05shapes = func() []struct {
	name string
	make func(k int) orb.Geometry
} {
	pt := func(i int) orb.Point { return orb.Point{float64(i%97) + 0.5, float64(i%89) + 0.25} }
	pts := func(i, m int) []orb.Point {
		o := make([]orb.Point, m)
		for j := range o {
			o[j] = pt(i*7 + j)
		}
		return o
	}
	ring := func(i int) orb.Ring {
		x, y := float64(i%97), float64(i%89)
		return orb.Ring{{x, y}, {x + 1, y}, {x + 1, y + 1}, {x, y + 1}, {x, y}}
	}
	type sh = struct {
		name string
		make func(k int) orb.Geometry
	}
	return []sh{
		{"multi point of k points", func(k int) orb.Geometry { return orb.MultiPoint(pts(0, k)) }},
		{"line string of k points", func(k int) orb.Geometry { return orb.LineString(pts(0, k)) }},
		{"multi line string of k two-point lines", func(k int) orb.Geometry {
			m := make(orb.MultiLineString, k)
			for i := range m {
				m[i] = pts(i, 2)
			}
			return m
		}},
		{"polygon of k small rings", func(k int) orb.Geometry {
			p := make(orb.Polygon, k)
			for i := range p {
				p[i] = ring(i)
			}
			return p
		}},
		{"multi polygon of k one-ring polygons", func(k int) orb.Geometry {
			m := make(orb.MultiPolygon, k)
			for i := range m {
				m[i] = orb.Polygon{ring(i)}
			}
			return m
		}},
		{"multi polygon of sqrt(k) polygons with sqrt(k) rings", func(k int) orb.Geometry {
			q := int(math.Sqrt(float64(k)))
			m := make(orb.MultiPolygon, q)
			for i := range m {
				m[i] = make(orb.Polygon, q)
				for j := range m[i] {
					m[i][j] = ring(i*q + j)
				}
			}
			return m
		}},
		{"collection of k points", func(k int) orb.Geometry {
			m := make(orb.Collection, k)
			for i := range m {
				m[i] = pt(i)
			}
			return m
		}},
		{"collection of k mixed small members", func(k int) orb.Geometry {
			m := make(orb.Collection, k)
			for i := range m {
				switch i % 4 {
				case 0:
					m[i] = pt(i)
				case 1:
					m[i] = orb.LineString(pts(i, 3))
				case 2:
					m[i] = orb.Polygon{ring(i)}
				default:
					m[i] = orb.MultiPoint(pts(i, 2))
				}
			}
			return m
		}},
		{"collections nested k deep around a line string", func(k int) orb.Geometry {
			var g orb.Geometry = orb.LineString(pts(0, 3))
			for i := 0; i < k; i++ {
				g = orb.Collection{g}
			}
			return g
		}},
		{"collections nested k/8 deep, each level with a point beside the nested one", func(k int) orb.Geometry {
			var g orb.Geometry = orb.LineString(pts(0, 3))
			for i := 0; i < k/8; i++ {
				g = orb.Collection{pt(i), g}
			}
			return g
		}},
		{"one ring of k points among k/10 small rings", func(k int) orb.Geometry {
			p := make(orb.Polygon, 0, k/10+1)
			bigr := append(orb.Ring(pts(0, k)), pt(0))
			p = append(p, bigr)
			for i := 0; i < k/10; i++ {
				p = append(p, ring(i))
			}
			return p
		}},
	}
}()

// c05encode gives the valid encoding of g in the family's format (geojson: a feature collection with one feature per
// member for collections, otherwise a geometry; mvt: one layer, one feature per member).
func c05encode(fam string, g orb.Geometry) []byte {
	switch fam {
	case "wkb":
		b, err := wkb.Marshal(g)
		if err != nil {
			return nil
		}
		return b
	case "wkt":
		return wkt.Marshal(g)
	case "json", "bson":
		var v interface{} = geojson.NewGeometry(g)
		if coll, ok := g.(orb.Collection); ok {
			fc := geojson.NewFeatureCollection()
			for i, m := range coll {
				f := geojson.NewFeature(m)
				f.ID = float64(i)
				f.Properties = geojson.Properties{"n": float64(i), "s": "v"}
				fc.Append(f)
			}
			v = fc
		}
		var b []byte
		var err error
		if fam == "json" {
			b, err = json.Marshal(v)
		} else {
			b, err = bson.Marshal(v)
		}
		if err != nil {
			return nil
		}
		return b
	default:
		fc := geojson.NewFeatureCollection()
		if coll, ok := g.(orb.Collection); ok {
			for i, m := range coll {
				f := geojson.NewFeature(m)
				f.ID = float64(i)
				f.Properties = geojson.Properties{"n": float64(i % 50), "s": "v"}
				fc.Append(f)
			}
		} else {
			fc.Append(geojson.NewFeature(g))
		}
		b, err := mvt.Marshal(mvt.Layers{mvt.NewLayer("l", fc)})
		if err != nil {
			return nil
		}
		return b
	}
}

// C05Judge runs one input through every decoder of the family and returns the violations observed
// (panics outside the known third-party class, allocation above A(n)+slack, WKB instability).
// It is the same judgement as c05run without the harness context; used by the coverage-guided
// fuzz targets (fuzz/) and by `vmon -judge-family`.
func C05Judge(family string, in []byte, allocSlack uint64) []string {
	var out []string
	for i := range c05decs {
		d := &c05decs[i]
		if d.family != family {
			continue
		}
		cp := append([]byte{}, in...)
		n := len(in)
		if d.name == "mvt.UnmarshalGzipped" {
			n += gunzipLen(in)
		}
		var val interface{}
		var err error
		a0 := allocBytes()
		pv, st := h.Catch(func() { val, err = d.f(cp) })
		used := allocBytes() - a0
		if pv != nil {
			if family == "bson" {
				fr := h.InnermostFrame(st)
				msg := fmt.Sprint(pv)
				if strings.HasPrefix(fr, "go.mongodb.org/mongo-driver/") && (strings.Contains(msg, "index out of range") || strings.Contains(msg, "slice bounds out of range")) {
					continue // known finding C05/bson-driver-panic
				}
			}
			out = append(out, fmt.Sprintf("%s panicked: %v\n%s", d.name, pv, st))
			continue
		}
		if limit := uint64(4<<20) + 4096*uint64(n) + allocSlack; used > limit {
			out = append(out, fmt.Sprintf("%s allocated %d bytes for %d input bytes (limit %d)", d.name, used, n, limit))
			continue
		}
		if g, ok := val.(orb.Geometry); ok && err == nil && family == "wkb" {
			var g2 orb.Geometry
			var e2 error
			pv, st := h.Catch(func() {
				data, e := wkb.Marshal(g)
				e2 = e
				if e == nil && data != nil {
					g2, e2 = wkb.Unmarshal(data)
				}
			})
			if pv != nil {
				out = append(out, fmt.Sprintf("%s: re-encoding the decoded value panicked: %v\n%s", d.name, pv, st))
			} else if e2 != nil || !(refmodel.EqualBits(refmodel.Norm(g), g2) || (g2 == nil && refmodel.NumVertices(g) == 0 && isNilSliceOrNil(g))) {
				out = append(out, fmt.Sprintf("%s: decode(encode(decode(x))) differs from decode(x): %v vs %v (%v)", d.name, g, g2, e2))
			}
		}
	}
	return out
}

// C05Seeds returns valid encodings per family to seed the fuzzers.
func C05Seeds(seed uint64) map[string][][]byte {
	r := h.NewRand(seed)
	out := map[string][][]byte{}
	for i := 0; i < 24; i++ {
		w, t, j, b, m, z := c05validEncodings(r)
		out["wkb"] = append(out["wkb"], w)
		out["wkt"] = append(out["wkt"], t)
		out["json"] = append(out["json"], j)
		out["bson"] = append(out["bson"], b)
		out["mvt"] = append(out["mvt"], m, z)
		if i < 8 {
			ht, _ := c05hostileTile(r)
			out["mvt"] = append(out["mvt"], ht)
		}
	}
	for _, w := range c05witnesses() {
		out[w.family] = append(out[w.family], w.in)
	}
	return out
}

type c05wktEdit struct{ text, how string }

var c05wktEditList []c05wktEdit

// c05wktEdits lists every sentence obtained from a valid one by inserting, deleting or replacing one token.
func c05wktEdits() []c05wktEdit {
	if c05wktEditList != nil {
		return c05wktEditList
	}
	valid := []string{
		"POINT(1 2)",
		"MULTIPOINT((1 2),(3 4))",
		"MULTIPOINT(1 2,3 4)",
		"LINESTRING(0 0,1 1,2 0)",
		"MULTILINESTRING((0 0,1 1),(2 2,3 3))",
		"POLYGON((0 0,4 0,4 4,0 0),(1 1,2 1,2 2,1 1))",
		"MULTIPOLYGON(((0 0,4 0,4 4,0 0),(1 1,2 1,2 2,1 1)),((5 5,6 5,6 6,5 5)))",
		"GEOMETRYCOLLECTION(POINT(1 2),LINESTRING(0 0,1 1),POLYGON((0 0,1 0,1 1,0 0)))",
		"GEOMETRYCOLLECTION(GEOMETRYCOLLECTION(MULTIPOINT((1 2)),POLYGON EMPTY),MULTILINESTRING((0 0,1 1)))",
		"POLYGON EMPTY",
	}
	ins := []string{",", "(", ")", " ", "EMPTY", "1", "1 2", "POINT", "Z", ")(", "),(", "()"}
	seen := map[string]bool{}
	add := func(t, how string) {
		if !seen[t] {
			seen[t] = true
			c05wktEditList = append(c05wktEditList, c05wktEdit{t, how})
		}
	}
	for _, v := range valid {
		// tokens: words / numbers, and each of ( ) , blank by itself
		var toks []string
		for i := 0; i < len(v); {
			j := i
			if strings.ContainsRune("(), ", rune(v[i])) {
				j = i + 1
			} else {
				for j < len(v) && !strings.ContainsRune("(), ", rune(v[j])) {
					j++
				}
			}
			toks = append(toks, v[i:j])
			i = j
		}
		add(v, "valid sentence")
		for i := 0; i <= len(toks); i++ {
			pre, post := strings.Join(toks[:i], ""), strings.Join(toks[i:], "")
			for _, t := range ins {
				add(pre+t+post, fmt.Sprintf("token %q inserted at position %d of %q", t, i, v))
			}
			if i < len(toks) {
				rest := strings.Join(toks[i+1:], "")
				add(pre+rest, fmt.Sprintf("token %d deleted from %q", i, v))
				for _, t := range ins {
					add(pre+t+rest, fmt.Sprintf("token %d of %q replaced by %q", i, v, t))
				}
			}
		}
	}
	return c05wktEditList
}
