package mon

import (
	"bytes"
	"encoding/json"
	"fmt"
	"math"
	"reflect"
	"strings"
	"time"

	"github.com/paulmach/orb"
	"github.com/paulmach/orb/encoding/mvt"
	"github.com/paulmach/orb/geojson"

	"verif/internal/h"
	"verif/internal/refmodel"
)

// C03 — MVT tiles round-trip layers exactly and marshal deterministically.
// Oracle: a model of the format written from the MVT specification and the package docs.

func closeRingI(r orb.Ring) orb.Ring {
	out := append(orb.Ring{}, r...)
	if len(out) > 0 && out[0] != out[len(out)-1] {
		out = append(out, out[0])
	}
	return out
}

func shoelaceSignI(r orb.Ring) int {
	var s int64
	n := len(r)
	ox, oy := int64(r[0][0]), int64(r[0][1])
	for i := 0; i < n; i++ {
		a, b := r[i], r[(i+1)%n]
		s += (int64(a[0])-ox)*(int64(b[1])-oy) - (int64(b[0])-ox)*(int64(a[1])-oy)
	}
	switch {
	case s > 0:
		return 1
	case s < 0:
		return -1
	}
	return 0
}

// c03modelGeom: what one non-collection geometry decodes to.
func c03modelGeom(g orb.Geometry) orb.Geometry {
	switch x := g.(type) {
	case orb.Point:
		return x
	case orb.MultiPoint:
		if len(x) == 1 {
			return x[0]
		}
		return x
	case orb.LineString:
		return x
	case orb.MultiLineString:
		if len(x) == 1 {
			return x[0]
		}
		return x
	case orb.Ring:
		return c03regroup([]orb.Ring{x})
	case orb.Bound:
		return c03regroup([]orb.Ring{refmodel.BoundRing(x)})
	case orb.Polygon:
		return c03regroup(x)
	case orb.MultiPolygon:
		var rings []orb.Ring
		for _, p := range x {
			rings = append(rings, p...)
		}
		return c03regroup(rings)
	}
	return nil
}

// c03regroup: rings closed, first ring opens a polygon, a later ring opens a new polygon iff it is counter-clockwise.
func c03regroup(rings []orb.Ring) orb.Geometry {
	var mp orb.MultiPolygon
	var p orb.Polygon
	for i, r := range rings {
		cr := closeRingI(r)
		if i == 0 {
			p = orb.Polygon{cr}
			continue
		}
		if shoelaceSignI(cr) > 0 {
			mp = append(mp, p)
			p = orb.Polygon{cr}
		} else {
			p = append(p, cr)
		}
	}
	if len(mp) == 0 {
		return p
	}
	return append(mp, p)
}

func c03modelValue(v interface{}) interface{} {
	switch t := v.(type) {
	case string, bool:
		return t
	case int:
		return float64(t)
	case int8:
		return float64(t)
	case int16:
		return float64(t)
	case int32:
		return float64(t)
	case int64:
		return float64(t)
	case uint:
		return float64(t)
	case uint8:
		return float64(t)
	case uint16:
		return float64(t)
	case uint32:
		return float64(t)
	case uint64:
		return float64(t)
	case float32:
		return float64(t)
	case float64:
		return t
	}
	b, _ := json.Marshal(v) // nil and non-comparable values are stored as their JSON text
	return string(b)
}

func c03modelID(id interface{}) interface{} {
	switch t := id.(type) {
	case nil:
		return nil
	case int:
		return float64(uint64(t))
	case int32:
		return float64(uint64(t))
	case int64:
		return float64(uint64(t))
	case uint32:
		return float64(uint64(t))
	case uint64:
		return float64(t)
	case float64:
		return float64(uint64(t))
	}
	return nil
}

type c03feat struct {
	ID    interface{}
	Geom  orb.Geometry
	Props map[string]interface{}
}

type c03layer struct {
	Name    string
	Version uint32
	Extent  uint32
	Feats   []c03feat
}

// c03model applies the format model to the input layers. truncateCollections models the
// known defect (only the first member of a collection becomes a feature).
func c03model(layers mvt.Layers, truncateCollections bool) []c03layer {
	var out []c03layer
	for _, l := range layers {
		ml := c03layer{Name: l.Name, Version: l.Version, Extent: l.Extent}
		for _, f := range l.Features {
			if f.Geometry == nil {
				continue
			}
			props := map[string]interface{}{}
			for k, v := range f.Properties {
				props[k] = c03modelValue(v)
			}
			members := []orb.Geometry{f.Geometry}
			if c, ok := f.Geometry.(orb.Collection); ok {
				members = c
				if truncateCollections && len(c) > 1 {
					members = c[:1]
				}
			}
			for _, m := range members {
				ml.Feats = append(ml.Feats, c03feat{ID: c03modelID(f.ID), Geom: c03modelGeom(m), Props: props})
			}
		}
		out = append(out, ml)
	}
	return out
}

func c03compare(got mvt.Layers, want []c03layer) string {
	if len(got) != len(want) {
		return fmt.Sprintf("%d layers decoded, %d expected", len(got), len(want))
	}
	for i, w := range want {
		g := got[i]
		if g.Name != w.Name || g.Version != w.Version || g.Extent != w.Extent {
			return fmt.Sprintf("layer %d: name/version/extent %q/%d/%d, expected %q/%d/%d", i, g.Name, g.Version, g.Extent, w.Name, w.Version, w.Extent)
		}
		if len(g.Features) != len(w.Feats) {
			return fmt.Sprintf("layer %d: %d features decoded, %d expected", i, len(g.Features), len(w.Feats))
		}
		for j, wf := range w.Feats {
			gf := g.Features[j]
			if !refmodel.EqualBits(gf.Geometry, wf.Geom) {
				return fmt.Sprintf("layer %d feature %d: geometry %T %v, expected %T %v", i, j, gf.Geometry, gf.Geometry, wf.Geom, wf.Geom)
			}
			if !reflect.DeepEqual(gf.ID, wf.ID) {
				return fmt.Sprintf("layer %d feature %d: id %#v, expected %#v", i, j, gf.ID, wf.ID)
			}
			if len(gf.Properties) != len(wf.Props) {
				return fmt.Sprintf("layer %d feature %d: %d properties, expected %d", i, j, len(gf.Properties), len(wf.Props))
			}
			for k, wv := range wf.Props {
				gv, ok := gf.Properties[k]
				if !ok || !reflect.DeepEqual(gv, wv) {
					return fmt.Sprintf("layer %d feature %d: property %q = %#v, expected %#v", i, j, k, gv, wv)
				}
			}
		}
	}
	return ""
}

// ---- generators

func c03ring(r *h.Rand, bx, by int, ccw bool) orb.Ring {
	if r.P(1, 12) {
		// a sliver: a triangle as long as the coordinate range allows (|v| < 2^28) whose doubled area is 1..8. Its winding
		// is the sign of an integer far smaller than the rounding error of a float64 shoelace sum over such coordinates.
		a := r.Range(1<<24, 1<<28-16)
		k := r.Range(1, 8)
		px, py := -a/2, -(a+k)/2
		ring := orb.Ring{{float64(px), float64(py)}, {float64(px + a), float64(py + a + k)}, {float64(px + a - 1), float64(py + a + k - 1)}}
		if r.Bool() { // started elsewhere
			ring = orb.Ring{ring[1], ring[2], ring[0]}
		}
		if s := shoelaceSignI(ring); s == 0 {
			panic("c03ring: sliver without area")
		} else if (s > 0) != ccw {
			ring.Reverse()
		}
		if r.Bool() {
			ring = append(ring, ring[0])
		}
		return ring
	}
	for {
		n := r.Range(3, 8)
		ring := make(orb.Ring, n)
		cx, cy := bx+r.Range(-1<<20, 1<<20), by+r.Range(-1<<20, 1<<20)
		rad := []int{3, 50, 4000, 1 << 22}[r.Intn(4)]
		arbitrary := r.P(1, 4) // an arbitrary vertex list (usually crossing itself): its winding is the sign of its shoelace sum
		for i := range ring {
			a := 2 * math.Pi * (float64(i) + r.Uniform(0, 0.8)) / float64(n)
			ring[i] = orb.Point{float64(cx + int(float64(rad)*r.Uniform(0.4, 1)*math.Cos(a))), float64(cy + int(float64(rad)*r.Uniform(0.4, 1)*math.Sin(a)))}
			if arbitrary {
				ring[i] = orb.Point{float64(cx + r.Range(-rad, rad)), float64(cy + r.Range(-rad, rad))}
			}
		}
		s := shoelaceSignI(ring)
		dup := false
		for i := range ring {
			dup = dup || ring[i] == ring[(i+1)%n]
		}
		if s == 0 || dup {
			continue
		}
		if (s > 0) != ccw {
			ring.Reverse()
		}
		if r.Bool() {
			ring = append(ring, ring[0])
		}
		return ring
	}
}

func c03polygon(r *h.Rand, bx, by int) orb.Polygon {
	p := orb.Polygon{c03ring(r, bx, by, true)}
	for k := r.Geom(0.7, 3); k > 0; k-- {
		p = append(p, c03ring(r, bx, by, false))
	}
	return p
}

func c03pts(r *h.Rand, bx, by, n int) []orb.Point {
	out := make([]orb.Point, n)
	for i := range out {
		out[i] = orb.Point{float64(bx + r.Range(-1<<23, 1<<23)), float64(by + r.Range(-1<<23, 1<<23))}
		if r.P(1, 6) && i > 0 {
			out[i] = out[i-1]
		}
	}
	return out
}

func c03geom(r *h.Rand, kind int) orb.Geometry {
	bx, by := r.Range(-(1<<28)+(1<<24), (1<<28)-(1<<24)), r.Range(-(1<<28)+(1<<24), (1<<28)-(1<<24))
	if r.Bool() {
		bx, by = r.Range(-4096, 8192), r.Range(-4096, 8192)
	}
	switch kind {
	case 0:
		return c03pts(r, bx, by, 1)[0]
	case 1:
		return orb.MultiPoint(c03pts(r, bx, by, r.Range(1, 6)))
	case 2:
		return orb.LineString(c03pts(r, bx, by, r.Range(2, 8)))
	case 3:
		var mls orb.MultiLineString
		for k := r.Range(1, 4); k > 0; k-- {
			mls = append(mls, c03pts(r, bx, by, r.Range(2, 6)))
		}
		return mls
	case 4:
		return c03ring(r, bx, by, true)
	case 5:
		return c03polygon(r, bx, by)
	case 6:
		var mp orb.MultiPolygon
		for k := r.Range(1, 4); k > 0; k-- {
			mp = append(mp, c03polygon(r, bx, by))
		}
		return mp
	default:
		a := c03pts(r, bx, by, 1)[0]
		return orb.Bound{Min: a, Max: orb.Point{a[0] + float64(r.Range(1, 5000)), a[1] + float64(r.Range(1, 5000))}}
	}
}

var c03shared = []interface{}{"europe", "germany", "berlin", 4.0}

var c03keys = []string{"id", "ID", "name", "Name", "NAME", "kind", "n", "N", "x", "class", "Class", "population", "ünï", "ÜNÏ", "a", "A", "", "tag:with:colon"}

func c03value(r *h.Rand) interface{} {
	n := []int64{0, 1, 7, -1, 255, 256, 1 << 31, -(1 << 31), 1<<53 + 1, 42, math.MinInt64, math.MaxInt64, -7}[r.Intn(13)]
	switch r.Intn(20) {
	case 0:
		return []string{"", "a", "road", "7", "true", "null", "ünï", "x\x00y"}[r.Intn(8)]
	case 1:
		return r.Bool()
	case 2:
		return int(n)
	case 3:
		return int8(n)
	case 4:
		return int16(n)
	case 5:
		return int32(n)
	case 6:
		return int64(n)
	case 7:
		return uint(uint64(n) & (1<<63 - 1))
	case 8:
		return uint8(n)
	case 9:
		return uint16(n)
	case 10:
		return uint32(n)
	case 11:
		return []uint64{0, 1, 7, 1 << 63, 1<<64 - 1, 1<<53 + 1, 1<<64 - 7}[r.Intn(7)]
	case 12:
		return float32(n) / 4
	case 13:
		return []float64{0, 1, 7, -1, 0.1, 1e300, -2.5, 1 << 53, math.Copysign(0, -1)}[r.Intn(9)]
	case 14:
		return nil
	case 15:
		return []interface{}{1, "a", nil, 2.5}
	case 16:
		return map[string]interface{}{"b": 1, "a": []int{1, 2}}
	case 17:
		if r.Bool() {
			return c03shared[:r.Intn(5)] // slices of different lengths over one backing array
		}
		return []int{}
	default:
		return float64(n)
	}
}

func c03props(r *h.Rand) geojson.Properties {
	if r.P(1, 6) {
		return nil
	}
	p := geojson.Properties{}
	for k := r.Geom(2, 8); k > 0; k-- {
		p[c03keys[r.Intn(len(c03keys))]] = c03value(r)
	}
	return p
}

func c03id(r *h.Rand) interface{} {
	v := []uint64{0, 1, 7, 1 << 31, 1<<53 - 1, 123456789, 1 << 62, 1<<62 + 12345}[r.Intn(8)]
	switch r.Intn(8) {
	case 0, 1:
		return nil
	case 2:
		return int(v)
	case 3:
		return int64(v)
	case 4:
		return uint64(v)
	case 5:
		return float64(v)
	case 6:
		return uint32(v)
	default:
		// the top half of the unsigned 64 bit range
		return []uint64{1 << 63, 1<<64 - 1, 1<<63 + 7}[r.Intn(3)]
	}
}

func c03layers(r *h.Rand, withCollection bool) mvt.Layers {
	var layers mvt.Layers
	nl := r.Intn(5)
	if withCollection && nl == 0 {
		nl = 1
	}
	collAt := -1
	if withCollection {
		collAt = r.Intn(nl)
	}
	for i := 0; i < nl; i++ {
		l := &mvt.Layer{Name: []string{"roads", "water", "", "pois", "L" + fmt.Sprint(i)}[r.Intn(5)], Version: uint32(1 + r.Intn(2)), Extent: uint32(256 << uint(r.Intn(6)))}
		if i > 0 && r.P(1, 6) {
			// the same name, version and extent as an earlier layer: still a layer of its own, in its own place
			e := layers[r.Intn(len(layers))]
			l.Name, l.Version, l.Extent = e.Name, e.Version, e.Extent
		}
		nf := r.Geom(4, 30)
		for j := 0; j < nf; j++ {
			f := geojson.NewFeature(c03geom(r, r.Intn(8)))
			if r.P(1, 10) {
				f.Geometry = nil
			}
			f.ID = c03id(r)
			f.Properties = c03props(r)
			l.Features = append(l.Features, f)
		}
		if i == collAt {
			var c orb.Collection
			for k := r.Range(0, 4); k > 0; k-- {
				c = append(c, c03geom(r, r.Intn(8)))
			}
			if c == nil {
				c = orb.Collection{}
			}
			f := geojson.NewFeature(c)
			f.ID = c03id(r)
			f.Properties = c03props(r)
			at := r.Intn(len(l.Features) + 1)
			l.Features = append(l.Features[:at:at], append([]*geojson.Feature{f}, l.Features[at:]...)...)
		}
		layers = append(layers, l)
	}
	return layers
}

func c03describe(layers mvt.Layers) string {
	var b strings.Builder
	for _, l := range layers {
		fmt.Fprintf(&b, "layer %q v%d extent %d: ", l.Name, l.Version, l.Extent)
		for _, f := range l.Features {
			fmt.Fprintf(&b, "{id=%#v geom=%T%v props=%#v} ", f.ID, f.Geometry, f.Geometry, map[string]interface{}(f.Properties))
		}
	}
	s := b.String()
	if len(s) > 6000 {
		s = s[:6000] + "…"
	}
	return s
}

// rebuildProps returns the same layers with every property map rebuilt in another insertion order.
func rebuildProps(r *h.Rand, layers mvt.Layers) mvt.Layers {
	out := make(mvt.Layers, len(layers))
	for i, l := range layers {
		nl := *l
		nl.Features = make([]*geojson.Feature, len(l.Features))
		for j, f := range l.Features {
			nf := *f
			if f.Properties != nil {
				keys := make([]string, 0, len(f.Properties))
				for k := range f.Properties {
					keys = append(keys, k)
				}
				np := make(geojson.Properties, len(keys)*2)
				for _, pi := range r.Perm(len(keys)) {
					np[keys[pi]] = f.Properties[keys[pi]]
				}
				nf.Properties = np
			}
			nl.Features[j] = &nf
		}
		out[i] = &nl
	}
	return out
}

// a JSON codec as a program might install in the geojson package: valid JSON, spelled differently from encoding/json
type c03hook struct{}

func (c03hook) Marshal(v interface{}) ([]byte, error) {
	b, err := json.MarshalIndent(v, " ", "\t")
	return append(b, ' '), err
}
func (c03hook) Unmarshal(data []byte, v interface{}) error {
	d := json.NewDecoder(bytes.NewReader(data))
	d.UseNumber()
	return d.Decode(v)
}

var c03first struct {
	layers    mvt.Layers
	gz, plain []byte
	slept     bool
}

func c03clone(layers mvt.Layers) mvt.Layers {
	out := make(mvt.Layers, len(layers))
	for i, l := range layers {
		nl := *l
		nl.Features = make([]*geojson.Feature, len(l.Features))
		for j, f := range l.Features {
			nf := *f
			nf.Geometry = refmodel.Copy(f.Geometry)
			nf.Properties = f.Properties.Clone()
			nl.Features[j] = &nf
		}
		out[i] = &nl
	}
	return out
}

func c03roundTrip(c *h.Ctx, r *h.Rand, layers mvt.Layers, collection bool) {
	desc := c03describe(layers)
	c.Note([]byte(desc))
	want := c03model(layers, false)
	fail := func(key, msg string, extra interface{}) {
		c.Fail(key, msg, map[string]interface{}{"layers": desc, "detail": extra})
	}
	var data []byte
	var err error
	if pv, st := h.Catch(func() { data, err = mvt.Marshal(layers) }); pv != nil {
		fail("", "mvt.Marshal panicked", map[string]interface{}{"panic": sv(pv), "stack": st})
		return
	}
	c.Eval()
	if err != nil {
		key := ""
		if collection && strings.Contains(err.Error(), "geometry collections are not supported") && hasEmptyCollectionFeature(layers) {
			key = "C03/collection-flattening"
		}
		fail(key, "mvt.Marshal failed on layers inside the domain", err.Error())
		return
	}
	if c03held != nil && !bytes.Equal(c03held, c03heldCopy) {
		fail("", "bytes returned by an earlier mvt.Marshal call were overwritten by a later call", nil)
	}
	c03held, c03heldCopy = data, append([]byte{}, data...)
	// determinism: 8 marshals with property maps rebuilt in different insertion orders
	for k := 0; k < 7; k++ {
		if k == 3 || k == 4 {
			// the GeoJSON package's codec knobs belong to GeoJSON documents: a program that installed its own JSON
			// codec there (indenting, unsorted keys, shortened floats) still gets the same tiles
			geojson.CustomJSONMarshaler, geojson.CustomJSONUnmarshaler = c03hook{}, c03hook{}
		}
		d2, err := mvt.Marshal(rebuildProps(r, layers))
		geojson.CustomJSONMarshaler, geojson.CustomJSONUnmarshaler = nil, nil
		c.Eval()
		if err != nil || !bytes.Equal(d2, data) {
			fail("", "marshalling the same layers again gives different bytes", map[string]interface{}{"attempt": k + 2, "err": sv(err)})
			break
		}
	}
	gz, err := mvt.MarshalGzipped(layers)
	if err != nil {
		fail("", "mvt.MarshalGzipped failed", err.Error())
		return
	}
	if gz2, err := mvt.MarshalGzipped(rebuildProps(r, layers)); err != nil || !bytes.Equal(gz, gz2) {
		fail("", "marshalling the same layers again gives different gzipped bytes", sv(err))
	}
	if c03first.gz == nil {
		// the first tile of this worker is marshalled again by later cases: repetitions of Marshal on one value that lie
		// seconds apart, not microseconds
		c03first.gz, c03first.layers = gz, c03clone(layers)
		c03first.plain = data
	} else if c.CaseHash()%64 == 0 {
		if !c03first.slept {
			c03first.slept = true
			time.Sleep(1100 * time.Millisecond) // (injected delay: at least once per worker the repetition is more than a second later)
		}
		g2, err := mvt.MarshalGzipped(c03first.layers)
		d2, err2 := mvt.Marshal(c03first.layers)
		c.Eval()
		c.Count("repetitions_of_the_worker's_first_tile_later_in_the_run", 1)
		if err != nil || err2 != nil || !bytes.Equal(g2, c03first.gz) || !bytes.Equal(d2, c03first.plain) {
			fail("", "marshalling the same layers again later in the run gives different bytes", map[string]interface{}{"gzipped_equal": bytes.Equal(g2, c03first.gz), "plain_equal": bytes.Equal(d2, c03first.plain)})
		}
	}
	paths := []struct {
		name string
		f    func() (mvt.Layers, error)
	}{
		{"Unmarshal(plain)", func() (mvt.Layers, error) { return mvt.Unmarshal(data) }},
		{"UnmarshalGzipped(gzipped)", func() (mvt.Layers, error) { return mvt.UnmarshalGzipped(gz) }},
	}
	for _, p := range paths {
		var got mvt.Layers
		if pv, st := h.Catch(func() { got, err = p.f() }); pv != nil {
			fail("", p.name+" panicked on what Marshal produced", map[string]interface{}{"panic": sv(pv), "stack": st})
			return
		}
		c.Eval()
		if err != nil {
			fail("", p.name+" failed on what Marshal produced", err.Error())
			return
		}
		if diff := c03compare(got, want); diff != "" {
			key := ""
			if collection && c03compare(got, c03model(layers, true)) == "" {
				key = "C03/collection-flattening"
			}
			fail(key, p.name+": decoded layers differ from the model of the format", diff)
			return
		}
		for _, l := range got {
			for fi, f := range l.Features {
				if !partsIndependent(f.Geometry) {
					fail("", p.name+": parts of one decoded geometry share memory (appending to one part overwrites another)", map[string]interface{}{"layer": l.Name, "feature": fi, "now": sv(f.Geometry)})
					return
				}
			}
		}
	}
	// Marshal does not change what it was given: the caller's layers still encode to the same bytes, and the
	// feature lists are as long as they were
	if d3, err := mvt.Marshal(layers); err != nil || !bytes.Equal(d3, data) {
		fail("", "marshalling the caller's layers once more gives different bytes (Marshal changed its argument?)", sv(err))
	}
}

var c03held, c03heldCopy []byte

func hasEmptyCollectionFeature(layers mvt.Layers) bool {
	for _, l := range layers {
		for _, f := range l.Features {
			if c, ok := f.Geometry.(orb.Collection); ok && len(c) == 0 {
				return true
			}
		}
	}
	return false
}

func init() {
	h.Register(&h.Monitor{
		ID: "C03",
		Rule: "layer sets of 0..4 layers x 0..30 features (eight non-collection kinds; integer coordinates: base |v| < 2^28 minus margin, local extents 3..2^23; closed and unclosed rings of non-zero area, outers counter-clockwise, holes clockwise, triangles included; ids absent / int / int64 / uint32 / uint64 / float64; property maps over strings, bools, every Go integer and float kind, nil, slices and maps, with recurring keys and values; versions 1-2, extents 256..8192, differing between layers), marshalled 8 times with rebuilt property maps, decoded plain and gzipped; one sub-check with a geometry-collection feature per layer set; one sub-check driving the zig-zag delta space through alternating multi-points. " +
			"non-trivial = at least one feature with a geometry; distinct = hash of the layer description",
		MinNontrivial: h.Fixed(1500, 150000),
		Assumptions: []string{
			"model: nil geometry dropped; one-member multi = its member; rings closed; rings regrouped by exact integer shoelace sign; id -> float64(uint64); numbers -> float64; nil and non-comparable property values -> their JSON text; nil properties = empty",
		},
		Subs: []h.Sub{
			{
				Name: "layers", Count: h.Fixed(2000, 600000),
				Run: func(c *h.Ctx, idx uint64, r *h.Rand) {
					layers := c03layers(r, false)
					c03roundTrip(c, r, layers, false)
					n := 0
					for _, l := range layers {
						for _, f := range l.Features {
							if f.Geometry != nil {
								n++
							}
						}
					}
					if n > 0 {
						c.Nontrivial(h.HashString(c03describe(layers)))
						if len(layers) > 0 && len(layers[0].Features) > 0 && len(layers[0].Features) < 4 {
							c.Sample(c03describe(layers))
						}
					}
				},
			},
			{
				Name: "collection-features", Count: h.Fixed(500, 150000),
				Run: func(c *h.Ctx, idx uint64, r *h.Rand) {
					layers := c03layers(r, true)
					c03roundTrip(c, r, layers, true)
					c.Nontrivial(h.HashString(c03describe(layers)))
					if len(layers[0].Features) < 3 {
						c.Sample(c03describe(layers))
					}
				},
			},
			{
				// large, highly repetitive layers (compress better than 100:1): thousands of identical features
				Name: "large-repetitive-tiles", Count: h.Fixed(6, 200),
				Run: func(c *h.Ctx, idx uint64, r *h.Rand) {
					n := []int{1000, 3000, 20000, 500, 8000, 1500}[idx%6]
					g := c03geom(r, []int{5, 2, 0, 6}[r.Intn(4)])
					l := &mvt.Layer{Name: "big", Version: 2, Extent: 4096}
					for i := 0; i < n; i++ {
						f := geojson.NewFeature(orb.Clone(g))
						f.Properties = geojson.Properties{"kind": "same", "n": 1}
						l.Features = append(l.Features, f)
					}
					layers := mvt.Layers{l}
					data, err := mvt.MarshalGzipped(layers)
					if err != nil {
						c.Fail("", "mvt.MarshalGzipped failed on a large layer", err.Error())
						return
					}
					plain, _ := mvt.Marshal(layers)
					got, err := mvt.UnmarshalGzipped(data)
					c.Evals(2)
					if err != nil {
						c.Fail("", "mvt.UnmarshalGzipped failed on what MarshalGzipped produced (large repetitive layer)", map[string]interface{}{"features": n, "geometry": sv(g), "gzipped_bytes": len(data), "plain_bytes": len(plain), "err": err.Error()})
						return
					}
					if diff := c03compare(got, c03model(layers, false)); diff != "" {
						c.Fail("", "large repetitive layer differs after the gzipped round trip", map[string]interface{}{"features": n, "geometry": sv(g), "diff": diff})
					}
					c.Max("max_compression_ratio_of_a_round_tripped_tile", float64(len(plain))/float64(len(data)), func() string { return fmt.Sprintf("%d features", n) })
					c.Nontrivial(h.Mix(0xb16, idx, uint64(n)))
					c.Sample(map[string]interface{}{"features": n, "geometry": sv(g), "gzipped_bytes": len(data), "plain_bytes": len(plain)})
				},
			},
			{
				Name: "zigzag-deltas", Count: h.Fixed(24, 16384), Exhaustive: h.ThoroughOnly,
				Run: func(c *h.Ctx, idx uint64, r *h.Rand) {
					// case idx covers 2^16 consecutive delta magnitudes (both signs, through x and y)
					var lo int64
					if c.Thorough() {
						lo = int64(idx) << 16 // [0, 2^30) exhaustively; |delta| < 2^29 is the domain, the upper half re-checks sign handling via y
						if lo >= 1<<29 {
							lo -= 1 << 29
						}
					} else {
						starts := []int64{0, 1<<8 - 1<<7, 1<<15 - 1<<15/2, 1 << 16, 1<<24 - 1<<15, 1<<28 - 1<<15, 1<<29 - 1<<16, 1<<27 - 1<<15}
						lo = starts[idx%8] + int64(idx/8)*(1<<16)
					}
					mp := make(orb.MultiPoint, 0, 1<<17)
					for k := int64(0); k < 1<<16; k++ {
						d := lo + k
						if d >= 1<<29 {
							d = 1<<29 - 1
						}
						a := -(d / 2)
						// x jumps by +d, y by -d; then back
						mp = append(mp, orb.Point{float64(a), float64(a + d)}, orb.Point{float64(a + d), float64(a)})
					}
					f := geojson.NewFeature(mp)
					layers := mvt.Layers{&mvt.Layer{Name: "z", Version: 2, Extent: 4096, Features: []*geojson.Feature{f}}}
					data, err := mvt.Marshal(layers)
					if err != nil {
						c.Fail("", "mvt.Marshal failed on a multi-point", err.Error())
						return
					}
					got, err := mvt.Unmarshal(data)
					c.Evals(2)
					if err != nil || len(got) != 1 || len(got[0].Features) != 1 {
						c.Fail("", "mvt.Unmarshal failed on a multi-point tile", sv(err))
						return
					}
					gmp, ok := got[0].Features[0].Geometry.(orb.MultiPoint)
					if !ok || len(gmp) != len(mp) {
						c.Fail("", "multi-point came back with another kind or length", fmt.Sprintf("%T", got[0].Features[0].Geometry))
						return
					}
					for i := range mp {
						if gmp[i] != mp[i] {
							prev := orb.Point{}
							if i > 0 {
								prev = mp[i-1]
							}
							c.Fail("", "a coordinate delta does not survive the zig-zag encoding", map[string]interface{}{"index": i, "previous": sv(prev), "point": sv(mp[i]), "decoded": sv(gmp[i]), "delta_x": mp[i][0] - prev[0], "delta_y": mp[i][1] - prev[1]})
							return
						}
					}
					c.Count("deltas_checked", 4<<16)
					c.Nontrivial(c.CaseHash())
					c.Sample(map[string]interface{}{"delta_magnitudes": []int64{lo, lo + 1<<16 - 1}, "points": len(mp)})
				},
			},
		},
	})
}
