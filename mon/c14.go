package mon

import (
	"fmt"
	"math"
	"sort"

	"github.com/paulmach/orb"
	"github.com/paulmach/orb/maptile"
	"github.com/paulmach/orb/maptile/tilecover"

	"verif/internal/exact"
	"verif/internal/gen"
	"verif/internal/h"
)

// C14 — tile covers contain every tile the geometry touches; merging keeps area.
//
// Oracle: vertices are projected with the web-mercator formula written out here (refFraction; it used to be the
// library's own maptile.Fraction, which let a change to that function hide itself); segments in tile
// space are intersected with the grid lines, giving for every crossed tile a
// witness point that must be covered when it is farther than 1e-6 tile from all
// tile edges.

func tileToLonLat(x, y float64, z uint) orb.Point {
	n := math.Exp2(float64(z))
	lon := x/n*360 - 180
	lat := math.Atan(math.Sinh(math.Pi*(1-2*y/n))) * 180 / math.Pi
	return orb.Point{lon, lat}
}

// refFraction: fractional tile coordinates of a lon/lat point with |lat| <= 85.0511 (the property's domain ends at 85).
func refFraction(ll orb.Point, z maptile.Zoom) orb.Point {
	n := float64(uint64(1) << uint(z))
	siny := math.Sin(ll[1] * math.Pi / 180.0)
	return orb.Point{(ll[0]/360.0 + 0.5) * n, (0.5 + 0.5*math.Log((1.0+siny)/(1.0-siny))/(-2*math.Pi)) * n}
}

func fractions(ls []orb.Point, z maptile.Zoom) []P {
	out := make([]P, len(ls))
	for i, p := range ls {
		f := refFraction(p, z)
		out[i] = P{f[0], f[1]}
	}
	return out
}

const c14margin = 1e-6

// witnesses returns, for the tile-space polyline, points in the interior of every crossed tile
// (farther than the margin from tile edges).
func witnesses(fr []P) []P {
	var out []P
	for i := 0; i+1 < len(fr); i++ {
		s, e := fr[i], fr[i+1]
		dx, dy := e[0]-s[0], e[1]-s[1]
		if dx == 0 && dy == 0 {
			continue
		}
		ts := []float64{0, 1}
		add := func(s0, d float64) {
			if d == 0 {
				return
			}
			lo, hi := math.Min(s0, s0+d), math.Max(s0, s0+d)
			for k := math.Ceil(lo); k <= hi; k++ {
				t := (k - s0) / d
				if t > 0 && t < 1 {
					ts = append(ts, t)
				}
			}
		}
		add(s[0], dx)
		add(s[1], dy)
		sort.Float64s(ts)
		for j := 0; j+1 < len(ts); j++ {
			if ts[j+1]-ts[j] <= 0 {
				continue
			}
			tm := (ts[j] + ts[j+1]) / 2
			w := P{s[0] + tm*dx, s[1] + tm*dy}
			fx, fy := w[0]-math.Floor(w[0]), w[1]-math.Floor(w[1])
			if fx > c14margin && fx < 1-c14margin && fy > c14margin && fy < 1-c14margin {
				out = append(out, w)
			}
		}
	}
	return out
}

// segMeetsBox: does the closed segment meet the box [x0,x1]x[y0,y1] (float Liang-Barsky).
func segMeetsBox(a, b P, x0, y0, x1, y1 float64) bool {
	t0, t1 := 0.0, 1.0
	dx, dy := b[0]-a[0], b[1]-a[1]
	for _, pq := range [4][2]float64{{-dx, a[0] - x0}, {dx, x1 - a[0]}, {-dy, a[1] - y0}, {dy, y1 - a[1]}} {
		p, q := pq[0], pq[1]
		if p == 0 {
			if q < 0 {
				return false
			}
			continue
		}
		r := q / p
		if p < 0 {
			if r > t0 {
				t0 = r
			}
		} else if r < t1 {
			t1 = r
		}
	}
	return t0 <= t1
}

func polylineMeetsTile(fr []P, t maptile.Tile, closed bool) bool {
	x0, y0 := float64(t.X)-c14margin, float64(t.Y)-c14margin
	x1, y1 := float64(t.X)+1+c14margin, float64(t.Y)+1+c14margin
	n := len(fr)
	m := n - 1
	if closed {
		m = n
	}
	for i := 0; i < m; i++ {
		if segMeetsBox(fr[i], fr[(i+1)%n], x0, y0, x1, y1) {
			return true
		}
	}
	return false
}

func setString(s maptile.Set) string {
	var ts []string
	for t, v := range s {
		if v {
			ts = append(ts, fmt.Sprintf("%d/%d/%d", t.Z, t.X, t.Y))
		}
	}
	sort.Strings(ts)
	if len(ts) > 80 {
		ts = append(ts[:80], fmt.Sprintf("... %d more", len(ts)-80))
	}
	return fmt.Sprint(ts)
}

func trueTiles(s maptile.Set) maptile.Set {
	out := maptile.Set{}
	for t, v := range s {
		if v {
			out[t] = true
		}
	}
	return out
}

// c14union is the union of two tile sets (the tiles with value true), built by the monitor; the library's own
// Set.Merge is run beside it on a copy and must agree (the covers of collections are built with it).
func c14union(c *h.Ctx, a, b maptile.Set) maptile.Set {
	out := maptile.Set{}
	for t, v := range a {
		if v {
			out[t] = true
		}
	}
	for t, v := range b {
		if v {
			out[t] = true
		}
	}
	lib := maptile.Set{}
	for t, v := range a {
		lib[t] = v
	}
	lib.Merge(b)
	if !sameSet(lib, out) {
		c.Fail("", "Set.Merge does not leave the union of the two sets' tiles in the receiver", map[string]interface{}{"receiver_tiles": len(trueTiles(a)), "argument_tiles": len(trueTiles(b)), "merged_tiles": len(trueTiles(lib)), "union_tiles": len(out)})
	}
	return out
}

// c14tilesOf is the tile of a point, or the two or four tiles it may be counted in when its image lies within 1e-6 tile of
// a grid line.
func c14tilesOf(p orb.Point, zoom maptile.Zoom) maptile.Set {
	f := refFraction(p, zoom)
	n := math.Exp2(float64(zoom))
	out := maptile.Set{}
	for _, dx := range []float64{-1e-6, 1e-6} {
		for _, dy := range []float64{-1e-6, 1e-6} {
			x, y := math.Floor(f[0]+dx), math.Floor(f[1]+dy)
			x, y = math.Max(0, math.Min(n-1, x)), math.Max(0, math.Min(n-1, y))
			out[maptile.Tile{X: uint32(x), Y: uint32(y), Z: zoom}] = true
		}
	}
	return out
}

func sameSet(a, b maptile.Set) bool {
	a, b = trueTiles(a), trueTiles(b)
	if len(a) != len(b) {
		return false
	}
	for t := range a {
		if !b[t] {
			return false
		}
	}
	return true
}

// c14line checks completeness and exactness of a line cover.
func c14line(c *h.Ctx, ls orb.LineString, z maptile.Zoom, cover maptile.Set, what string) bool {
	fr := fractions(ls, z)
	d := func() map[string]interface{} {
		return map[string]interface{}{"zoom": z, "line": sv(ls), "tile_space": fr, "cover": setString(cover), "entry": what}
	}
	// (tiles are demanded for segments the projection can resolve: a vertex within four floats of the previous one in both
	// longitude and latitude may or may not project to a different point, depending on the last bits of the formula)
	var kept orb.LineString
	for _, p := range ls {
		if n := len(kept); n > 0 {
			q := kept[n-1]
			if math.Abs(p[0]-q[0]) <= 4*math.Abs(math.Nextafter(q[0], math.Inf(1))-q[0]) && math.Abs(p[1]-q[1]) <= 4*math.Abs(math.Nextafter(q[1], math.Inf(1))-q[1]) {
				continue
			}
		}
		kept = append(kept, p)
	}
	for _, w := range witnesses(fractions(kept, z)) {
		t := maptile.Tile{X: uint32(math.Floor(w[0])), Y: uint32(math.Floor(w[1])), Z: z}
		c.Eval()
		if !cover[t] {
			c.Fail("", "a tile the line passes through is missing from the cover", map[string]interface{}{"case": d(), "witness_point": w, "tile": sv(t)})
			return false
		}
	}
	for t, v := range cover {
		if !v {
			continue
		}
		c.Eval()
		if t.Z != z || !polylineMeetsTile(fr, t, false) {
			c.Fail("", "the cover of a line contains a tile the line does not touch", map[string]interface{}{"case": d(), "tile": sv(t)})
			return false
		}
	}
	return true
}

// c14polygon checks a polygon cover. rings are the closed rings in lon/lat.
func c14polygon(c *h.Ctx, pg orb.Polygon, z maptile.Zoom, cover maptile.Set, what string) bool {
	frs := make([][]P, len(pg))
	minx, miny, maxx, maxy := math.Inf(1), math.Inf(1), math.Inf(-1), math.Inf(-1)
	for i, r := range pg {
		frs[i] = fractions(r, z)
		for _, p := range frs[i] {
			minx, miny, maxx, maxy = math.Min(minx, p[0]), math.Min(miny, p[1]), math.Max(maxx, p[0]), math.Max(maxy, p[1])
		}
	}
	d := func() map[string]interface{} {
		return map[string]interface{}{"zoom": z, "polygon": sv(pg), "tile_space": frs, "cover": setString(cover), "entry": what}
	}
	// boundary
	for _, fr := range frs {
		for _, w := range witnesses(fr) {
			t := maptile.Tile{X: uint32(math.Floor(w[0])), Y: uint32(math.Floor(w[1])), Z: z}
			c.Eval()
			if !cover[t] {
				c.Fail("", "a tile the polygon's boundary passes through is missing from the cover", map[string]interface{}{"case": d(), "witness_point": w, "tile": sv(t)})
				return false
			}
		}
	}
	// interior samples
	x0, y0, x1, y1 := math.Floor(minx), math.Floor(miny), math.Floor(maxx), math.Floor(maxy)
	if (x1-x0+1)*(y1-y0+1) <= 4000 {
		for ty := y0; ty <= y1; ty++ {
			for tx := x0; tx <= x1; tx++ {
				t := maptile.Tile{X: uint32(tx), Y: uint32(ty), Z: z}
				if cover[t] {
					continue
				}
				for _, o := range [5][2]float64{{0.5, 0.5}, {0.25, 0.25}, {0.75, 0.25}, {0.25, 0.75}, {0.75, 0.75}} {
					q := P{tx + o[0], ty + o[1]}
					far := true
					for _, fr := range frs {
						far = far && exact.DistToPolyline(q, fr, true) > c14margin
					}
					if !far {
						continue
					}
					c.Eval()
					if inPolyModel(frs, q) {
						c.Fail("", "a tile whose interior meets the polygon's interior is missing from the cover", map[string]interface{}{"case": d(), "sample_point": q, "tile": sv(t)})
						return false
					}
				}
			}
		}
	}
	for t, v := range cover {
		if !v {
			continue
		}
		// (a tile whose closed square only touches the bound counts as meeting it, like for lines)
		if t.Z != z || float64(t.X)+1+c14margin < minx || float64(t.X)-c14margin > maxx || float64(t.Y)+1+c14margin < miny || float64(t.Y)-c14margin > maxy {
			c.Fail("", "the cover of a polygon contains a tile outside the polygon's tile-space bound", map[string]interface{}{"case": d(), "tile": sv(t)})
			return false
		}
	}
	return true
}

// c14genLine makes a lon/lat line of positive length whose image spans a few tiles at zoom z.
func c14tilePoint(r *h.Rand, z uint, cx, cy, rad float64) (float64, float64) {
	n := math.Exp2(float64(z))
	x, y := cx+r.Uniform(-rad, rad), cy+r.Uniform(-rad, rad)
	if r.P(1, 8) { // snap onto an exact tile corner / grid line
		switch r.Intn(3) {
		case 0:
			x, y = math.Round(x), math.Round(y)
		case 1:
			x = math.Round(x)
		default:
			y = math.Round(y)
		}
	}
	// stay inside lon (-180,180), lat (-85,85)
	ymin := (1 - math.Log(math.Tan(85*math.Pi/180)+1/math.Cos(85*math.Pi/180))/math.Pi) / 2 * n
	eps := n * 1e-9
	x = math.Min(math.Max(x, eps+n*1e-6), n-eps-n*1e-6)
	y = math.Min(math.Max(y, ymin+eps), n-ymin-eps)
	return x, y
}

func c14centre(r *h.Rand, z uint) (float64, float64, float64) {
	n := math.Exp2(float64(z))
	rad := []float64{0.2, 0.8, 2.5, 7, 15}[r.Intn(5)]
	if rad > n/3 {
		rad = n / 3
	}
	return r.Uniform(0.05, 0.95) * n, r.Uniform(0.1, 0.9) * n, rad
}

func init() {
	h.Register(&h.Monitor{
		ID: "C14",
		Rule: "zoom 0..22; points and multi-points; polylines of positive length (2..10 vertices, 0.2..30 tiles across, vertices snapped onto exact tile corners and grid lines with probability 1/8, repeated vertices); simple polygons (exact simplicity filter in tile space) with 0..2 validated holes, sub-tile to 30 tiles across; multi-polygons, collections, bounds; MergeUp / MergeUpPartial on covers, aligned full blocks, nearly full blocks and random sets with every target zoom <= cover zoom; runs of whole-degree vertices straight in longitude/latitude, multi-polygons of a polygon and an island in its lake, Set.Merge against a union built by the monitor. " +
			"non-trivial = the geometry's cover has at least 2 tiles, or a merge that changes the set; distinct = hash of (zoom, coordinates)",
		MinNontrivial: h.Fixed(1500, 150000),
		Assumptions: []string{
			"vertices are projected with the mercator formula written out in the monitor; witness and sample points closer than 1e-6 tile to a tile edge or to the boundary are not judged",
			"polygons are simple in tile space (exact filter) with holes strictly inside; the polygon clause is a lower bound plus the tile-space bounding box, as the property states",
		},
		Subs: []h.Sub{
			{
				Name: "lines-and-points", Count: h.Fixed(3000, 1500000),
				Run: func(c *h.Ctx, idx uint64, r *h.Rand) {
					z := uint(idx % 23)
					zoom := maptile.Zoom(z)
					cx, cy, rad := c14centre(r, z)
					n := r.Range(2, 10)
					ls := make(orb.LineString, 0, n)
					for i := 0; i < n; i++ {
						x, y := c14tilePoint(r, z, cx, cy, rad)
						p := tileToLonLat(x, y, z)
						if i > 0 && r.P(1, 8) {
							p = ls[i-1]
						}
						ls = append(ls, p)
					}
					if r.P(1, 8) {
						// a densely sampled track: every segment is far shorter than a tile (1e-11 .. 1e-7 tile)
						x0, y0 := c14tilePoint(r, z, cx, cy, rad)
						step := math.Pow(10, -float64(r.Range(7, 11)))
						ls = ls[:0]
						for i := 0; i < n; i++ {
							ls = append(ls, tileToLonLat(x0+step*float64(i), y0+step*float64(i%3), z))
						}
						c.Count("tiny_segment_lines", 1)
					}
					if r.P(1, 8) && z >= 3 && z <= 10 {
						// vertices in the middle of a run that is exactly straight in longitude/latitude (whole degrees in equal
						// steps) and oblique: straight there is not straight in tile space - the line bends at every one of them
						ls = ls[:0]
						lon, lat := float64(r.Range(-170, 60)), float64(r.Range(-75, 40))
						dx, dy := float64(r.Range(1, 30)), float64(r.Range(-30, 30))
						for k := 0; k <= r.Range(2, 5); k++ {
							p := orb.Point{lon + float64(k)*dx, lat + float64(k)*dy}
							if p[0] > 179 || math.Abs(p[1]) > 84 {
								break
							}
							ls = append(ls, p)
						}
						if len(ls) < 3 {
							return
						}
						if r.Bool() { // and on: an ordinary vertex behind the run
							x, y := c14tilePoint(r, z, cx, cy, rad)
							ls = append(ls, tileToLonLat(x, y, z))
						}
						c.Count("lines_with_vertices_inside_a_run_straight_in_lon_lat", 1)
					}
					fr := fractions(ls, zoom)
					if polyLen(fr) == 0 {
						return // outside the domain: no positive length
					}
					c.Note([]byte(fmt.Sprintf("z=%d line=%v", z, ls)))
					cover := tilecover.LineString(ls.Clone(), zoom)
					c.Eval()
					if !c14line(c, ls, zoom, cover, "LineString") {
						return
					}
					if g, err := tilecover.Geometry(ls.Clone(), zoom); err != nil || !sameSet(g, cover) {
						c.Fail("", "tilecover.Geometry(LineString) differs from tilecover.LineString", map[string]interface{}{"line": sv(ls), "zoom": z, "err": sv(err)})
					}
					// multi line string = union of the members' covers
					ls2 := make(orb.LineString, 0, 3)
					for i := 0; i < 3; i++ {
						x, y := c14tilePoint(r, z, cx, cy, rad)
						ls2 = append(ls2, tileToLonLat(x, y, z))
					}
					if polyLen(fractions(ls2, zoom)) > 0 {
						u := tilecover.LineString(ls2.Clone(), zoom)
						u = c14union(c, u, cover)
						if m := tilecover.MultiLineString(orb.MultiLineString{ls.Clone(), ls2.Clone()}, zoom); !sameSet(m, u) {
							c.Fail("", "the cover of a multi line string is not the union of its members' covers", map[string]interface{}{"lines": sv(orb.MultiLineString{ls, ls2}), "zoom": z})
						}
					}
					// points
					mp := orb.MultiPoint(ls)
					pc := tilecover.MultiPoint(mp, zoom)
					// ("its tile": the tile the point's mercator image lies in. For a point within 1e-6 tile of a grid line - the
					// margin the property itself keeps from tile edges - either neighbour is its tile: which one is decided by the last
					// bits of the projection, not by the point.)
					allowedAll := maptile.Set{}
					okMulti := true
					for _, p := range mp {
						allowed := c14tilesOf(p, zoom)
						for t := range allowed {
							allowedAll[t] = true
						}
						one := tilecover.Point(p, zoom)
						hit := false
						for t, v := range one {
							hit = hit || (v && allowed[t])
						}
						if len(trueTiles(one)) != 1 || !hit {
							c.Fail("", "the cover of a point is not its tile", map[string]interface{}{"point": sv(p), "zoom": z, "cover": setString(one), "its_tile_or_tiles": setString(allowed)})
						}
						any := false
						for t := range allowed {
							any = any || pc[t]
						}
						okMulti = okMulti && any
					}
					c.Evals(len(mp) + 3)
					for t, v := range pc {
						okMulti = okMulti && (!v || allowedAll[t])
					}
					if !okMulti {
						c.Fail("", "the cover of a multi-point is not exactly the tiles of its points", map[string]interface{}{"points": sv(mp), "zoom": z, "cover": setString(pc)})
					}
					if len(trueTiles(cover)) >= 2 {
						c.Nontrivial(h.Mix(hashPts(ls), uint64(z)))
						c.Sample(map[string]interface{}{"zoom": z, "line": sv(ls), "cover_tiles": len(cover)})
					}
				},
			},
			{
				Name: "polygons", Count: h.Fixed(3000, 1500000),
				Run: func(c *h.Ctx, idx uint64, r *h.Rand) {
					z := uint(idx % 23)
					zoom := maptile.Zoom(z)
					cx, cy, rad := c14centre(r, z)
					// rings generated in tile space, converted to lon/lat, validated on the library's fractions
					snap := 0.0
					if r.P(1, 4) {
						snap = 1 // vertices on exact tile corners
					} else if r.P(1, 4) {
						snap = 0.5
					}
					if snap > 0 && rad < 3*snap {
						snap = 0
					}
					rt := gen.PolygonWithHoles(r, r.Range(3, 10), cx, cy, rad*0.4, rad, snap, r.Intn(3))
					if rt == nil {
						return
					}
					n := math.Exp2(float64(z))
					var pg orb.Polygon
					ok := true
					for i, rr := range rt {
						ring := make(orb.Ring, len(rr))
						for j, p := range rr {
							if p[0] <= 0 || p[0] >= n || p[1] <= n*0.02 || p[1] >= n*0.98 {
								ok = false
							}
							ring[j] = tileToLonLat(p[0], p[1], z)
						}
						ring[len(ring)-1] = ring[0]
						if i == 0 && r.Bool() { // start at another vertex (e.g. the southern tip)
							k := r.Intn(len(ring) - 1)
							open := append(append(orb.Ring{}, ring[k:len(ring)-1]...), ring[:k]...)
							ring = append(open, open[0])
						}
						if r.Bool() {
							ring.Reverse()
						}
						pg = append(pg, ring)
					}
					if !ok {
						return
					}
					for _, p := range pg[0] {
						if math.Abs(p[1]) >= 85 || math.Abs(p[0]) >= 180 {
							return
						}
					}
					// validate in tile space with the library's fractions
					frs := make([][]P, len(pg))
					for i, rg := range pg {
						frs[i] = fractions(rg, zoom)
						if !exact.IsSimpleRing(frs[i]) {
							return
						}
					}
					for i := 1; i < len(frs); i++ {
						if !gen.StrictlyInside(frs[i], frs[0]) {
							return
						}
						for j := 1; j < i; j++ {
							if !gen.Disjoint(frs[i], frs[j]) {
								return
							}
						}
					}
					c.Note([]byte(fmt.Sprintf("z=%d polygon=%v", z, pg)))
					var cover maptile.Set
					var err error
					if r.P(1, 8) {
						// an unsuccessful call first (a ring that is not closed is reported as an error): it must not affect the next one
						open3 := orb.Ring{pg[0][0], pg[0][1], pg[0][2]}
						h.Catch(func() { tilecover.Ring(open3, zoom) })
						c.Count("covers_after_an_unsuccessful_call", 1)
					}
					if pv, st := h.Catch(func() { cover, err = tilecover.Polygon(pg.Clone(), zoom) }); pv != nil {
						c.Fail("", "tilecover.Polygon panicked", map[string]interface{}{"zoom": z, "polygon": sv(pg), "panic": sv(pv), "stack": st})
						return
					}
					c.Eval()
					if err != nil {
						c.Fail("", "tilecover.Polygon returned an error for closed simple rings", map[string]interface{}{"zoom": z, "polygon": sv(pg), "tile_space": frs, "err": err.Error()})
						return
					}
					if !c14polygon(c, pg, zoom, cover, "Polygon") {
						return
					}
					if g, err := tilecover.Geometry(pg.Clone(), zoom); err != nil || !sameSet(g, cover) {
						c.Fail("", "tilecover.Geometry(Polygon) differs from tilecover.Polygon", map[string]interface{}{"polygon": sv(pg), "zoom": z, "err": sv(err)})
					}
					if len(pg) == 1 {
						if g, err := tilecover.Ring(pg[0].Clone(), zoom); err != nil || !sameSet(g, cover) {
							c.Fail("", "tilecover.Ring differs from the cover of the one-ring polygon", map[string]interface{}{"polygon": sv(pg), "zoom": z, "err": sv(err)})
						}
					}
					// a bare ring as a member of a collection is covered like the ring
					if rc, err := tilecover.Ring(pg[0].Clone(), zoom); err == nil {
						g1, err1 := tilecover.Geometry(orb.Collection{pg[0].Clone()}, zoom)
						g2, err2 := tilecover.Geometry(orb.Collection{orb.Collection{pg[0].Clone(), orb.Point(pg[0][0])}}, zoom)
						c.Evals(2)
						if err1 != nil || err2 != nil || !sameSet(g1, rc) || !sameSet(g2, rc) {
							c.Fail("", "the cover of a collection holding a ring (flat or nested) is not the cover of the ring", map[string]interface{}{"ring": sv(pg[0]), "zoom": z, "ring_tiles": len(rc), "flat_tiles": len(g1), "nested_tiles": len(g2), "err": sv(err1) + sv(err2)})
						}
					}
					// collection / multi-polygon = union; bound = all tiles of the range
					pt := pg[0][0]
					coll := orb.Collection{pg.Clone(), pt, orb.MultiPolygon{pg.Clone()}}
					u := tilecover.Point(pt, zoom)
					u = c14union(c, u, cover)
					if g, err := tilecover.Geometry(coll, zoom); err != nil || !sameSet(g, u) {
						c.Fail("", "the cover of a collection is not the union of its members' covers", map[string]interface{}{"polygon": sv(pg), "zoom": z, "err": sv(err)})
					}
					// members that lie in each other's way: an island filling a lake of the polygon (its outline runs through
					// tiles the polygon's hole boundary already covers), in either order - still the union of the members' covers
					for hi := 1; hi < len(pg); hi++ {
						island := orb.Polygon{pg[hi].Clone()}
						ic, err := tilecover.Polygon(island.Clone(), zoom)
						if err != nil || !c14polygon(c, island, zoom, ic, "Polygon (island in a lake)") {
							break
						}
						want := c14union(c, cover, ic)
						m1, err1 := tilecover.MultiPolygon(orb.MultiPolygon{pg.Clone(), island.Clone()}, zoom)
						m2, err2 := tilecover.MultiPolygon(orb.MultiPolygon{island.Clone(), pg.Clone()}, zoom)
						c.Evals(3)
						c.Count("multi_polygons_of_a_polygon_and_an_island_in_its_lake", 1)
						if len(trueTiles(ic)) > len(trueTiles(tilecover.LineString(orb.LineString(island[0]), zoom))) {
							c.Count("islands_with_tiles_of_their_own_interior", 1)
						}
						if err1 != nil || err2 != nil || !sameSet(m1, want) || !sameSet(m2, want) {
							c.Fail("", "the cover of a multi-polygon is not the union of its members' covers", map[string]interface{}{"polygon": sv(pg), "island": sv(island), "zoom": z, "union_tiles": len(trueTiles(want)), "polygon_first": len(trueTiles(m1)), "island_first": len(trueTiles(m2)), "err": sv(err1) + sv(err2)})
							break
						}
					}
					b := pg[0].Bound()
					bc := tilecover.Bound(b, zoom)
					lo, hi := refFraction(b.Min, zoom), refFraction(b.Max, zoom)
					// the range between the corners' tiles; a corner within 1e-6 tile of a grid line may be counted in either neighbour
					const m = 1e-6
					inner, outer := maptile.Set{}, maptile.Set{}
					for x := math.Floor(lo[0] - m); x <= math.Floor(hi[0]+m); x++ {
						for y := math.Floor(hi[1] - m); y <= math.Floor(lo[1]+m); y++ {
							if x < 0 || y < 0 {
								continue
							}
							t := maptile.Tile{X: uint32(x), Y: uint32(y), Z: zoom}
							outer[t] = true
							if x >= math.Floor(lo[0]+m) && x <= math.Floor(hi[0]-m) && y >= math.Floor(hi[1]+m) && y <= math.Floor(lo[1]-m) {
								inner[t] = true
							}
						}
					}
					wantB := outer
					c.Evals(4)
					okB := true
					for t := range inner {
						okB = okB && bc[t]
					}
					for t, v := range bc {
						okB = okB && (!v || outer[t])
					}
					if !okB {
						c.Fail("", "the cover of a bound is not the tile range between its corners", map[string]interface{}{"bound": sv(b), "zoom": z, "cover": setString(bc), "want": setString(wantB)})
					}
					for t := range trueTiles(cover) {
						if !bc[t] && !(float64(t.X)+1+c14margin >= math.Floor(lo[0]) && float64(t.X)-c14margin <= math.Floor(hi[0])+1 && float64(t.Y)+1+c14margin >= math.Floor(hi[1]) && float64(t.Y)-c14margin <= math.Floor(lo[1])+1) {
							c.Fail("", "polygon cover is not inside the cover of the polygon's bound", map[string]interface{}{"polygon": sv(pg), "zoom": z, "tile": sv(t)})
							break
						}
					}
					if len(trueTiles(cover)) >= 2 {
						c.Nontrivial(h.Mix(hashPts(pg[0]), uint64(z), uint64(len(pg))))
						c.Sample(map[string]interface{}{"zoom": z, "polygon": sv(pg), "cover_tiles": len(cover)})
					}
				},
			},
			{
				Name: "merge-up", Count: h.Fixed(3000, 1500000),
				Run: func(c *h.Ctx, idx uint64, r *h.Rand) {
					zc := uint(r.Range(1, 12))
					zoom := maptile.Zoom(zc)
					m := uint32(1) << zc
					in := maptile.Set{}
					kind := r.Intn(5)
					switch kind {
					case 0, 1: // aligned full block(s): all descendants of an ancestor k levels up
						for b := r.Range(1, 2); b > 0; b-- {
							k := uint(r.Range(1, int(math.Min(float64(zc), 4))))
							ax, ay := uint32(r.Intn(int(m>>k))), uint32(r.Intn(int(m>>k)))
							for x := ax << k; x < (ax+1)<<k; x++ {
								for y := ay << k; y < (ay+1)<<k; y++ {
									in[maptile.Tile{X: x, Y: y, Z: zoom}] = true
								}
							}
						}
						if kind == 1 { // nearly full: knock a few out, add a few elsewhere
							for t := range in {
								if r.P(1, 20) {
									delete(in, t)
								}
							}
							for k := r.Intn(4); k > 0; k-- {
								in[maptile.Tile{X: uint32(r.Intn(int(m))), Y: uint32(r.Intn(int(m))), Z: zoom}] = true
							}
						}
					case 2: // rectangle
						x0, y0 := r.Intn(int(m)), r.Intn(int(m))
						w, hh := r.Range(1, 12), r.Range(1, 12)
						for x := x0; x < x0+w && x < int(m); x++ {
							for y := y0; y < y0+hh && y < int(m); y++ {
								in[maptile.Tile{X: uint32(x), Y: uint32(y), Z: zoom}] = true
							}
						}
					case 3: // random
						for k := r.Range(1, 60); k > 0; k-- {
							in[maptile.Tile{X: uint32(r.Intn(int(math.Min(float64(m), 16)))), Y: uint32(r.Intn(int(math.Min(float64(m), 16)))), Z: zoom}] = true
						}
					default: // the whole world at a low zoom
						zc = uint(r.Range(1, 4))
						zoom = maptile.Zoom(zc)
						m = 1 << zc
						for x := uint32(0); x < m; x++ {
							for y := uint32(0); y < m; y++ {
								in[maptile.Tile{X: x, Y: y, Z: zoom}] = true
							}
						}
					}
					if len(in) == 0 {
						return
					}
					target := maptile.Zoom(r.Intn(int(zc) + 1))
					// (a key whose value is false is not a member: some clones carry a few such keys next to real members)
					var ghosts []maptile.Tile
					if r.P(1, 4) {
						keys := make([]maptile.Tile, 0, len(in))
						for t := range in {
							keys = append(keys, t)
						}
						sort.Slice(keys, func(i, j int) bool {
							return keys[i].X < keys[j].X || (keys[i].X == keys[j].X && keys[i].Y < keys[j].Y)
						})
						for _, t := range keys {
							for _, s := range t.Siblings() {
								if !in[s] && r.P(1, 3) {
									ghosts = append(ghosts, s)
								}
							}
							if len(ghosts) > 6 {
								break
							}
						}
						sort.Slice(ghosts, func(i, j int) bool {
							return ghosts[i].X < ghosts[j].X || (ghosts[i].X == ghosts[j].X && ghosts[i].Y < ghosts[j].Y)
						})
					}
					clone := func() maptile.Set {
						o := make(maptile.Set, len(in))
						for t := range in {
							o[t] = true
						}
						for _, t := range ghosts {
							o[t] = false
						}
						return o
					}
					d := func(out maptile.Set) map[string]interface{} {
						return map[string]interface{}{"input": setString(in), "false_valued_keys": fmt.Sprint(ghosts), "cover_zoom": zc, "target_zoom": target, "output": setString(out)}
					}
					check := func(out maptile.Set, strict bool, name string) bool {
						out = trueTiles(out)
						// zoom range, non-nested
						for t := range out {
							if t.Z < target || t.Z > zoom {
								c.Fail("", name+": merged tile outside [target zoom, cover zoom]", map[string]interface{}{"case": d(out), "tile": sv(t)})
								return false
							}
							for a := t; strict && a.Z > target; {
								a = a.Parent()
								if out[a] {
									c.Fail("", name+": merged tiles are nested", map[string]interface{}{"case": d(out), "tile": sv(t), "ancestor": sv(a)})
									return false
								}
							}
						}
						// expansion to the cover zoom
						exp := maptile.Set{}
						for t := range out {
							k := uint(zoom - t.Z)
							if k > 8 {
								return true // too large to expand; not generated
							}
							for x := t.X << k; x < (t.X+1)<<k; x++ {
								for y := t.Y << k; y < (t.Y+1)<<k; y++ {
									exp[maptile.Tile{X: x, Y: y, Z: zoom}] = true
								}
							}
						}
						for t := range in {
							if !exp[t] {
								c.Fail("", name+": the merged set does not cover an input tile", map[string]interface{}{"case": d(out), "tile": sv(t)})
								return false
							}
						}
						if strict {
							if len(exp) != len(in) {
								c.Fail("", name+": the merged set covers more area than the input", map[string]interface{}{"case": d(out), "input_tiles": len(in), "expanded_tiles": len(exp)})
								return false
							}
							for t := range out {
								if t.Z <= target {
									continue
								}
								sib := t.Siblings()
								if out[sib[0]] && out[sib[1]] && out[sib[2]] && out[sib[3]] {
									c.Fail("", name+": a complete sibling quad is left unmerged above the target zoom", map[string]interface{}{"case": d(out), "quad_parent": sv(t.Parent())})
									return false
								}
							}
						}
						return true
					}
					var out maptile.Set
					if pv, st := h.Catch(func() { out = tilecover.MergeUp(clone(), target) }); pv != nil {
						c.Fail("", "MergeUp panicked", map[string]interface{}{"case": d(nil), "panic": sv(pv), "stack": st})
						return
					}
					c.Eval()
					if !check(out, true, "MergeUp") {
						return
					}
					p4 := tilecover.MergeUpPartial(clone(), target, 4)
					c.Eval()
					if !sameSet(p4, out) {
						c.Fail("", "MergeUpPartial(count=4) differs from MergeUp", map[string]interface{}{"case": d(out), "partial": setString(p4)})
					}
					cnt := r.Range(1, 3)
					pk := tilecover.MergeUpPartial(clone(), target, cnt)
					c.Eval()
					check(pk, false, fmt.Sprintf("MergeUpPartial(count=%d)", cnt))
					if !sameSet(out, in) {
						c.Nontrivial(h.Mix(h.HashString(setString(in)), uint64(target)))
						c.Sample(map[string]interface{}{"input_tiles": len(in), "cover_zoom": zc, "target_zoom": target, "output": setString(out)})
					}
				},
			},
			{
				// long thin axis-parallel rectangles at deep zooms: thousands of tile rows (or columns) and 3..6 across; the
				// image of such a rectangle is a rectangle of tiles, so the cover must be exactly that block. Plus
				// collections of 2..23 small members: the cover is the union of the members' covers
				Name: "strips-and-many-members", Count: h.Fixed(48, 4000), BudgetSec: 60,
				Run: func(c *h.Ctx, idx uint64, r *h.Rand) {
					zc := r.Range(18, 22)
					zoom := maptile.Zoom(zc)
					long := 1<<uint(31-zc) + r.Range(5, 120)
					if r.P(1, 3) {
						long = r.Range(300, 3000)
					}
					short := r.Range(3, 6)
					m := 1 << uint(zc)
					nx, ny := short, long
					if idx%2 == 1 {
						nx, ny = long, short
					}
					x0, y0 := r.Intn(m-nx-2)+1, r.Intn(m-ny-2)+1
					// corners strictly inside the first and last tiles of the block
					lo := maptile.Tile{X: uint32(x0), Y: uint32(y0 + ny - 1), Z: zoom}.Bound()
					hi := maptile.Tile{X: uint32(x0 + nx - 1), Y: uint32(y0), Z: zoom}.Bound()
					fx0, fy0 := r.Uniform(0.1, 0.9), r.Uniform(0.1, 0.9)
					fx1, fy1 := r.Uniform(0.1, 0.9), r.Uniform(0.1, 0.9)
					minx, miny := lo.Min[0]+fx0*(lo.Max[0]-lo.Min[0]), lo.Min[1]+fy0*(lo.Max[1]-lo.Min[1])
					maxx, maxy := hi.Min[0]+fx1*(hi.Max[0]-hi.Min[0]), hi.Min[1]+fy1*(hi.Max[1]-hi.Min[1])
					if maxy > 84 || miny < -84 {
						return // (the property's domain ends at 85 degrees)
					}
					ring := orb.Ring{{minx, miny}, {maxx, miny}, {maxx, maxy}, {minx, maxy}, {minx, miny}}
					if r.Bool() {
						ring.Reverse()
					}
					d := map[string]interface{}{"zoom": zc, "ring": sv(ring), "tile_block": []int{x0, y0, nx, ny}}
					// the corners must really be where intended (float round trip of the tile bound)
					if a, b := maptile.At(orb.Point{minx, miny}, zoom), maptile.At(orb.Point{maxx, maxy}, zoom); int(a.X) != x0 || int(a.Y) != y0+ny-1 || int(b.X) != x0+nx-1 || int(b.Y) != y0 {
						return
					}
					for name, g := range map[string]orb.Geometry{"polygon": orb.Polygon{ring}, "bound": orb.Bound{Min: orb.Point{minx, miny}, Max: orb.Point{maxx, maxy}}} {
						cov, err := tilecover.Geometry(g, zoom)
						c.Eval()
						if err != nil {
							c.Fail("", "tilecover.Geometry failed on a long thin rectangle ("+name+")", map[string]interface{}{"case": d, "err": err.Error()})
							continue
						}
						cov = trueTiles(cov)
						missing, extra := 0, 0
						var firstMissing maptile.Tile
						for x := x0; x < x0+nx; x++ {
							for y := y0; y < y0+ny; y++ {
								t := maptile.Tile{X: uint32(x), Y: uint32(y), Z: zoom}
								if !cov[t] {
									if missing == 0 {
										firstMissing = t
									}
									missing++
								}
							}
						}
						for t := range cov {
							if t.Z != zoom || int(t.X) < x0 || int(t.X) >= x0+nx || int(t.Y) < y0 || int(t.Y) >= y0+ny {
								extra++
							}
						}
						if missing > 0 || extra > 0 {
							c.Fail("", "the cover of a long thin rectangle ("+name+") is not exactly its block of tiles", map[string]interface{}{"case": d, "missing_tiles": missing, "first_missing": sv(firstMissing), "tiles_outside_the_block": extra})
						}
					}
					c.Max("tile rows or columns in one polygon", float64(long), nil)
					// many small members
					k := []int{2, 3, 5, 6, 7, 9, 11, 13, 17, 23}[r.Intn(10)]
					z2 := maptile.Zoom(r.Range(6, 14))
					var coll orb.Collection
					union := maptile.Set{}
					bad := false
					for i := 0; i < k; i++ {
						a := orb.Point{r.Uniform(-170, 170), r.Uniform(-80, 80)}
						var mg orb.Geometry
						switch r.Intn(3) {
						case 0:
							mg = a
						case 1:
							mg = orb.LineString{a, {a[0] + r.Uniform(-0.5, 0.5), a[1] + r.Uniform(-0.5, 0.5)}, {a[0] + r.Uniform(-0.5, 0.5), a[1] + r.Uniform(-0.5, 0.5)}}
						default:
							w := r.Uniform(0.01, 0.3)
							mg = orb.Polygon{{a, {a[0] + w, a[1]}, {a[0] + w, a[1] + w}, {a[0], a[1] + w}, a}}
						}
						coll = append(coll, mg)
						mc, err := tilecover.Geometry(orb.Clone(mg), z2)
						if err != nil {
							bad = true
							break
						}
						for t := range trueTiles(mc) {
							union[t] = true
						}
					}
					if !bad {
						cc, err := tilecover.Geometry(coll, z2)
						c.Eval()
						if err != nil || !sameSet(trueTiles(cc), union) {
							c.Fail("", "the cover of a collection is not the union of its members' covers", map[string]interface{}{"members": k, "zoom": z2, "collection": sv(coll), "err": sv(err), "cover_tiles": len(trueTiles(cc)), "union_tiles": len(union)})
						}
						c.Max("members in one collection given to tilecover", float64(k), nil)
					}
					c.Nontrivial(h.Mix(uint64(zc), uint64(x0), uint64(y0), uint64(long), uint64(k)))
					c.Sample(d)
				},
			},
			{
				// covers of thousands of tiles (size-dependent paths), judged without expanding: every input tile has exactly
				// one ancestor-or-self in the output, and the output's area (sum of 4^(zoom - z)) equals the number of input tiles
				Name: "merge-up-large", Count: h.Fixed(60, 6000), BudgetSec: 60,
				Run: func(c *h.Ctx, idx uint64, r *h.Rand) {
					zc := uint(r.Range(7, 12))
					zoom := maptile.Zoom(zc)
					m := 1 << zc
					in := maptile.Set{}
					kind := int(idx % 4)
					side := []int{48, 64, 96, 128}[r.Intn(4)]
					if side > m {
						side = m
					}
					x0, y0 := r.Intn(m-side+1), r.Intn(m-side+1)
					switch kind {
					case 0: // random fill of a block with a given density
						den := []int{50, 75, 90, 99}[r.Intn(4)]
						for x := x0; x < x0+side; x++ {
							for y := y0; y < y0+side; y++ {
								if r.Intn(100) < den {
									in[maptile.Tile{X: uint32(x), Y: uint32(y), Z: zoom}] = true
								}
							}
						}
					case 1: // every sibling quad independently: full, empty, or a random partial group
						for x := x0 &^ 1; x < x0+side; x += 2 {
							for y := y0 &^ 1; y < y0+side; y += 2 {
								mask := 15
								switch r.Intn(4) {
								case 0:
									mask = 0
								case 1:
									mask = r.Intn(16)
								}
								for b := 0; b < 4; b++ {
									if mask&(1<<uint(b)) != 0 {
										in[maptile.Tile{X: uint32(x + b&1), Y: uint32(y + b>>1), Z: zoom}] = true
									}
								}
							}
						}
					case 2: // the cover of a large triangle (a real cover with ragged edges)
						lo, hi := maptile.Tile{X: uint32(x0), Y: uint32(y0 + side - 1), Z: zoom}.Bound(), maptile.Tile{X: uint32(x0 + side - 1), Y: uint32(y0), Z: zoom}.Bound()
						w, hgt := hi.Max[0]-lo.Min[0], hi.Max[1]-lo.Min[1]
						pt := func() orb.Point { return orb.Point{lo.Min[0] + r.Float64()*w, lo.Min[1] + r.Float64()*hgt} }
						tri := orb.Ring{pt(), pt(), pt()}
						tri = append(tri, tri[0])
						cov, err := tilecover.Geometry(orb.Polygon{tri}, zoom)
						if err != nil {
							return
						}
						in = cov
					default: // disc-shaped
						cx, cy, rad := float64(x0)+float64(side)/2, float64(y0)+float64(side)/2, float64(side)/2
						for x := x0; x < x0+side; x++ {
							for y := y0; y < y0+side; y++ {
								if math.Hypot(float64(x)+0.5-cx, float64(y)+0.5-cy) <= rad {
									in[maptile.Tile{X: uint32(x), Y: uint32(y), Z: zoom}] = true
								}
							}
						}
					}
					in = trueTiles(in)
					if len(in) == 0 {
						return
					}
					target := maptile.Zoom(r.Intn(int(zc) + 1))
					if r.Bool() {
						target = maptile.Zoom(r.Range(int(zc)-4, int(zc)))
					}
					d := func() map[string]interface{} {
						return map[string]interface{}{"input_tiles": len(in), "shape": kind, "cover_zoom": zc, "target_zoom": target, "block": []int{x0, y0, side}}
					}
					clone := func() maptile.Set {
						o := make(maptile.Set, len(in))
						for t := range in {
							o[t] = true
						}
						return o
					}
					var out maptile.Set
					if pv, st := h.Catch(func() { out = tilecover.MergeUp(clone(), target) }); pv != nil {
						c.Fail("", "MergeUp panicked on a large cover", map[string]interface{}{"case": d(), "panic": sv(pv), "stack": st})
						return
					}
					c.Eval()
					out = trueTiles(out)
					area := 0.0
					for t := range out {
						if t.Z < target || t.Z > zoom {
							c.Fail("", "MergeUp (large cover): merged tile outside [target zoom, cover zoom]", map[string]interface{}{"case": d(), "tile": sv(t)})
							return
						}
						area += math.Pow(4, float64(zoom-t.Z))
					}
					for t := range in {
						hits := 0
						for a := t; ; a = a.Parent() {
							if out[a] {
								hits++
							}
							if a.Z <= target || a.Z == 0 {
								break
							}
						}
						if hits != 1 {
							c.Fail("", "MergeUp (large cover): an input tile is covered by "+fmt.Sprint(hits)+" output tiles instead of exactly one", map[string]interface{}{"case": d(), "tile": sv(t)})
							return
						}
					}
					if area != float64(len(in)) {
						c.Fail("", "MergeUp (large cover): the merged set does not cover the same area as the input", map[string]interface{}{"case": d(), "output_area_in_cover_zoom_tiles": area})
						return
					}
					for t := range out {
						if t.Z <= target {
							continue
						}
						sib := t.Siblings()
						if out[sib[0]] && out[sib[1]] && out[sib[2]] && out[sib[3]] {
							c.Fail("", "MergeUp (large cover): a complete sibling quad is left unmerged above the target zoom", map[string]interface{}{"case": d(), "quad_parent": sv(t.Parent())})
							return
						}
					}
					if p4 := tilecover.MergeUpPartial(clone(), target, 4); !sameSet(p4, out) {
						c.Fail("", "MergeUpPartial(count=4) differs from MergeUp on a large cover", d())
					}
					c.Eval()
					c.Max("tiles in one cover given to MergeUp", float64(len(in)), nil)
					c.Nontrivial(h.Mix(uint64(len(in)), uint64(kind), uint64(target), uint64(x0), uint64(y0)))
					c.Sample(map[string]interface{}{"case": d(), "output_tiles": len(out)})
				},
			},
		},
	})
}
