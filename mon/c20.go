package mon

import (
	"bytes"
	"encoding/binary"
	"encoding/json"
	"fmt"
	"go/ast"
	"go/parser"
	"go/token"
	"math"
	"os"
	"path/filepath"
	"reflect"
	"sort"
	"strings"

	"github.com/paulmach/orb"
	"github.com/paulmach/orb/clip"
	"github.com/paulmach/orb/clip/smartclip"
	"github.com/paulmach/orb/encoding/ewkb"
	"github.com/paulmach/orb/encoding/wkb"
	"github.com/paulmach/orb/encoding/wkt"
	"github.com/paulmach/orb/geo"
	"github.com/paulmach/orb/geojson"
	"github.com/paulmach/orb/maptile"
	"github.com/paulmach/orb/maptile/tilecover"
	"github.com/paulmach/orb/planar"
	"github.com/paulmach/orb/project"
	"github.com/paulmach/orb/simplify"
	"go.mongodb.org/mongo-driver/bson"

	"verif/internal/h"
	"verif/internal/refmodel"
)

// C20 — generic geometry entry points are total and agree with the typed ones.

type c20entry struct {
	name     string
	covers   []string // exported functions (pkg.Func) this entry drives
	readOnly bool
	call     func(g orb.Geometry) interface{}
	// typed returns what the kind-specific function(s) give for g (ok=false: no typed counterpart for this kind)
	typed func(g orb.Geometry) (interface{}, bool)
	// combine returns what the collection result must be given the per-member results of call (nil: not checked)
	combine func(c orb.Collection, members []interface{}) (interface{}, bool)
}

var c20box = orb.Bound{Min: orb.Point{-1, -1}, Max: orb.Point{30, 30}}
var c20cut = orb.Bound{Min: orb.Point{2, 2}, Max: orb.Point{7, 6}}

func unwrapMLS(m orb.MultiLineString) orb.Geometry {
	switch len(m) {
	case 0:
		return nil
	case 1:
		return m[0]
	}
	return m
}

func clipTyped(b orb.Bound) func(orb.Geometry) (interface{}, bool) {
	return func(g orb.Geometry) (interface{}, bool) {
		cp := refmodel.Copy(g)
		if cp == nil {
			return orb.Geometry(nil), true
		}
		switch x := cp.(type) {
		case orb.Point:
			if b.Contains(x) {
				return orb.Geometry(x), true
			}
			return orb.Geometry(nil), true
		case orb.MultiPoint:
			r := clip.MultiPoint(b, x)
			switch len(r) {
			case 0:
				return orb.Geometry(nil), true
			case 1:
				return orb.Geometry(r[0]), true
			}
			return orb.Geometry(r), true
		case orb.LineString:
			return unwrapMLS(clip.LineString(b, x)), true
		case orb.MultiLineString:
			return unwrapMLS(clip.MultiLineString(b, x)), true
		case orb.Ring:
			if r := clip.Ring(b, x); r != nil {
				return orb.Geometry(r), true
			}
			return orb.Geometry(nil), true
		case orb.Polygon:
			if r := clip.Polygon(b, x); r != nil {
				return orb.Geometry(r), true
			}
			return orb.Geometry(nil), true
		case orb.MultiPolygon:
			r := clip.MultiPolygon(b, x)
			switch len(r) {
			case 0:
				return orb.Geometry(nil), true
			case 1:
				return orb.Geometry(r[0]), true
			}
			return orb.Geometry(r), true
		case orb.Bound:
			if r := clip.Bound(b, x); !r.IsEmpty() && b.Intersects(x) {
				return orb.Geometry(r), true
			}
			return orb.Geometry(nil), true
		}
		return nil, false
	}
}

func combineGeoms(members []interface{}) (interface{}, bool) {
	var out orb.Collection
	for _, m := range members {
		g, _ := m.(orb.Geometry)
		if g != nil {
			out = append(out, g)
		}
	}
	switch len(out) {
	case 0:
		return orb.Geometry(nil), true
	case 1:
		return orb.Geometry(out[0]), true
	}
	return orb.Geometry(out), true
}

func sumFloats(members []interface{}) float64 {
	s := 0.0
	for _, m := range members {
		s += m.(float64)
	}
	return s
}

type c20simplifier interface {
	LineString(orb.LineString) orb.LineString
	MultiLineString(orb.MultiLineString) orb.MultiLineString
	Ring(orb.Ring) orb.Ring
	Polygon(orb.Polygon) orb.Polygon
	MultiPolygon(orb.MultiPolygon) orb.MultiPolygon
}

// simplifyTyped: the kind-specific methods of a FRESH simplifier value (the generic entry is driven on one long-lived
// value that sees every kind in turn, so state kept in the simplifier between calls shows as a difference)
func simplifyTyped(mk func() c20simplifier) func(orb.Geometry) (interface{}, bool) {
	nilIfEmpty := func(g orb.Geometry, n int) (interface{}, bool) {
		if n == 0 {
			return orb.Geometry(nil), true
		}
		return g, true
	}
	return func(g orb.Geometry) (interface{}, bool) {
		cp := refmodel.Copy(g)
		s := mk()
		switch x := cp.(type) {
		case nil:
			return orb.Geometry(nil), true
		case orb.Point:
			return orb.Geometry(x), true
		case orb.MultiPoint:
			if x == nil {
				return orb.Geometry(nil), true
			}
			return orb.Geometry(x), true
		case orb.Bound:
			return orb.Geometry(x), true
		case orb.LineString:
			r := s.LineString(x)
			return nilIfEmpty(r, len(r))
		case orb.MultiLineString:
			r := s.MultiLineString(x)
			return nilIfEmpty(r, len(r))
		case orb.Ring:
			r := s.Ring(x)
			return nilIfEmpty(r, len(r))
		case orb.Polygon:
			r := s.Polygon(x)
			return nilIfEmpty(r, len(r))
		case orb.MultiPolygon:
			r := s.MultiPolygon(x)
			return nilIfEmpty(r, len(r))
		}
		return nil, false
	}
}

func c20registry() []c20entry {
	roundPt := func(p orb.Point) orb.Point {
		f := float64(orb.DefaultRoundingFactor)
		return orb.Point{math.Round(p[0]*f) / f, math.Round(p[1]*f) / f}
	}
	tag := func(p orb.Point) orb.Point { return orb.Point{p[0] + 1000, 3 * p[1]} }
	dp := simplify.DouglasPeucker(0.5)
	rd := simplify.Radial(planar.Distance, 0.5)
	vs := simplify.VisvalingamThreshold(0.5)
	vk := simplify.VisvalingamKeep(3)
	q := orb.Point{3.5, 2.25}
	var es []c20entry
	add := func(e c20entry) { es = append(es, e) }

	add(c20entry{name: "orb.Clone", covers: []string{"orb.Clone"}, readOnly: true,
		call:  func(g orb.Geometry) interface{} { return orb.Clone(g) },
		typed: func(g orb.Geometry) (interface{}, bool) { return refmodel.Copy(g), true }})
	add(c20entry{name: "orb.Equal(g,g)", covers: []string{"orb.Equal"}, readOnly: true,
		call:  func(g orb.Geometry) interface{} { return orb.Equal(g, refmodel.Copy(g)) },
		typed: func(g orb.Geometry) (interface{}, bool) { return true, true }})
	add(c20entry{name: "orb.Round", covers: []string{"orb.Round"},
		call: func(g orb.Geometry) interface{} { return orb.Round(g) },
		typed: func(g orb.Geometry) (interface{}, bool) {
			if isNilSlice(g) {
				return nil, false // (returns the nil interface for nil slices; no typed counterpart to compare with)
			}
			if c, ok := g.(orb.Collection); ok {
				for _, m := range c {
					if isNilSlice(m) {
						return nil, false
					}
				}
			}
			return refProject(g, roundPt), !hasNilSliceMember(g)
		}})
	add(c20entry{name: "Geometry.Bound/Dimensions/GeoJSONType", readOnly: true,
		call: func(g orb.Geometry) interface{} {
			if g == nil {
				return nil
			}
			return []interface{}{g.Bound(), g.Dimensions(), g.GeoJSONType()}
		}})
	add(c20entry{name: "Collection.Clone/Equal/Bound/Dimensions", readOnly: true,
		call: func(g orb.Geometry) interface{} {
			c := orb.Collection{g, orb.Point{1, 1}}
			if g == nil {
				c = orb.Collection{orb.Point{1, 1}}
			}
			cl := c.Clone()
			return []interface{}{c.Equal(cl), c.Bound(), c.Dimensions()}
		}})
	add(c20entry{name: "planar.Area", covers: []string{"planar.Area"}, readOnly: true,
		call:  func(g orb.Geometry) interface{} { return planar.Area(g) },
		typed: func(g orb.Geometry) (interface{}, bool) { _, a := planar.CentroidArea(g); return a, true },
		combine: func(c orb.Collection, ms []interface{}) (interface{}, bool) {
			max := c.Dimensions()
			s := 0.0
			for i, m := range c {
				if m.Dimensions() == max {
					s += ms[i].(float64)
				}
			}
			return s, true
		}})
	add(c20entry{name: "planar.CentroidArea", covers: []string{"planar.CentroidArea"}, readOnly: true,
		call: func(g orb.Geometry) interface{} { c, a := planar.CentroidArea(g); return []interface{}{c, a} }})
	add(c20entry{name: "planar.Length", covers: []string{"planar.Length"}, readOnly: true,
		call:    func(g orb.Geometry) interface{} { return planar.Length(g) },
		typed:   func(g orb.Geometry) (interface{}, bool) { return lengthRef(g, planar.Distance), g != nil },
		combine: func(c orb.Collection, ms []interface{}) (interface{}, bool) { return sumFloats(ms), true }})
	add(c20entry{name: "planar.DistanceFrom", covers: []string{"planar.DistanceFrom", "planar.DistanceFromWithIndex"}, readOnly: true,
		call:  func(g orb.Geometry) interface{} { return planar.DistanceFrom(g, q) },
		typed: func(g orb.Geometry) (interface{}, bool) { d, _ := planar.DistanceFromWithIndex(g, q); return d, true },
		combine: func(c orb.Collection, ms []interface{}) (interface{}, bool) {
			d := math.Inf(1)
			for _, m := range ms {
				d = math.Min(d, m.(float64))
			}
			return d, true
		}})
	qs := []orb.Point{{5, 5}, {1, 1}, {7.5, 2}, {4, 6}, {2, 2.5}, {9, 9}}
	add(c20entry{name: "planar.DistanceFrom (six query points)", readOnly: true,
		call: func(g orb.Geometry) interface{} {
			out := make([]interface{}, len(qs))
			for i, p := range qs {
				out[i] = planar.DistanceFrom(g, p)
			}
			return out
		},
		typed: func(g orb.Geometry) (interface{}, bool) {
			out := make([]interface{}, len(qs))
			for i, p := range qs {
				out[i], _ = planar.DistanceFromWithIndex(g, p)
			}
			return out, true
		},
		combine: func(c orb.Collection, ms []interface{}) (interface{}, bool) {
			out := make([]interface{}, len(qs))
			for i := range qs {
				d := math.Inf(1)
				for _, m := range ms {
					d = math.Min(d, m.([]interface{})[i].(float64))
				}
				out[i] = d
			}
			return out, true
		}})
	add(c20entry{name: "geo.Area", covers: []string{"geo.Area"}, readOnly: true,
		call:    func(g orb.Geometry) interface{} { return geo.Area(g) },
		combine: func(c orb.Collection, ms []interface{}) (interface{}, bool) { return sumFloats(ms), true }})
	add(c20entry{name: "geo.Length", covers: []string{"geo.Length"}, readOnly: true,
		call:    func(g orb.Geometry) interface{} { return geo.Length(g) },
		typed:   func(g orb.Geometry) (interface{}, bool) { return lengthRef(g, geo.Distance), g != nil },
		combine: func(c orb.Collection, ms []interface{}) (interface{}, bool) { return sumFloats(ms), true }})
	add(c20entry{name: "geo.LengthHaversine", covers: []string{"geo.LengthHaversine", "geo.LengthHaversign"}, readOnly: true,
		call: func(g orb.Geometry) interface{} { return []interface{}{geo.LengthHaversine(g), geo.LengthHaversign(g)} },
		typed: func(g orb.Geometry) (interface{}, bool) {
			l := lengthRef(g, geo.DistanceHaversine)
			return []interface{}{l, l}, g != nil
		},
		combine: func(c orb.Collection, ms []interface{}) (interface{}, bool) {
			a, b := 0.0, 0.0
			for _, m := range ms {
				a, b = a+m.([]interface{})[0].(float64), b+m.([]interface{})[1].(float64)
			}
			return []interface{}{a, b}, true
		}})
	for _, bx := range []struct {
		n string
		b orb.Bound
	}{{"containing box", c20box}, {"cutting box", c20cut}, {"box around the origin only", orb.Bound{Min: orb.Point{-1, -1}, Max: orb.Point{0.5, 0.5}}}} {
		b := bx.b
		add(c20entry{name: "clip.Geometry (" + bx.n + ")", covers: []string{"clip.Geometry", "clip.Collection"},
			call:    func(g orb.Geometry) interface{} { return clip.Geometry(b, g) },
			typed:   clipTyped(b),
			combine: func(c orb.Collection, ms []interface{}) (interface{}, bool) { return combineGeoms(ms) }})
		add(c20entry{name: "clip.LineString/MultiLineString/MultiPoint and clip.Geometry of 0-d values read-only (" + bx.n + ")", readOnly: true,
			call: func(g orb.Geometry) interface{} {
				switch x := g.(type) {
				case orb.LineString:
					return []interface{}{clip.LineString(b, x), clip.LineString(b, x, clip.OpenBound(true))}
				case orb.MultiLineString:
					return []interface{}{clip.MultiLineString(b, x), clip.MultiLineString(b, x, clip.OpenBound(true))}
				case orb.MultiPoint:
					// "returns a new set": the points kept are not written over the caller's
					return []interface{}{clip.MultiPoint(b, x), clip.Geometry(b, x), smartclip.Geometry(b, x, orb.CW)}
				case orb.Point:
					return []interface{}{clip.Geometry(b, x), smartclip.Geometry(b, x, orb.CW)}
				case orb.Collection:
					// only 1-d and 2-d input is documented as scratch space: a collection of points and multi points is not
					if len(x) > 0 && x.Dimensions() == 0 {
						return []interface{}{clip.Geometry(b, x), clip.Collection(b, x), smartclip.Geometry(b, x, orb.CW)}
					}
				}
				return nil
			}})
		add(c20entry{name: "smartclip.Geometry (" + bx.n + ")", covers: []string{"smartclip.Geometry"},
			call: func(g orb.Geometry) interface{} { return smartclip.Geometry(b, g, orb.CCW) },
			typed: func(g orb.Geometry) (interface{}, bool) {
				cp := refmodel.Copy(g)
				var mp orb.MultiPolygon
				switch x := cp.(type) {
				case nil:
					return orb.Geometry(nil), true
				case orb.Ring:
					mp = smartclip.Ring(b, x, orb.CCW)
				case orb.Polygon:
					mp = smartclip.Polygon(b, x, orb.CCW)
				case orb.MultiPolygon:
					mp = smartclip.MultiPolygon(b, x, orb.CCW)
				case orb.Collection:
					return nil, false
				default:
					return clipTyped(b)(g)
				}
				switch len(mp) {
				case 0:
					return orb.Geometry(nil), true
				case 1:
					return orb.Geometry(mp[0]), true
				}
				return orb.Geometry(mp), true
			},
			combine: func(c orb.Collection, ms []interface{}) (interface{}, bool) {
				var out orb.Collection
				for _, m := range ms {
					if g, _ := m.(orb.Geometry); g != nil {
						out = append(out, g)
					}
				}
				if len(out) == 1 {
					return orb.Geometry(out[0]), true
				}
				if out == nil {
					return c20nothing{}, true // nothing remains: a nil interface or an empty collection
				}
				return orb.Geometry(out), true
			}})
	}
	add(c20entry{name: "project.Geometry", covers: []string{"project.Geometry", "project.Collection"},
		call:  func(g orb.Geometry) interface{} { return project.Geometry(g, tag) },
		typed: func(g orb.Geometry) (interface{}, bool) { return c20projectTyped(g, tag), true }})
	// a point function that does not keep boxes axis-parallel (a quarter turn and a half, scaled): a Bound is, by the typed
	// function's definition, still the box of its two projected corners
	turn := func(p orb.Point) orb.Point { return orb.Point{p[0] - p[1], p[0] + p[1] + 7} }
	add(c20entry{name: "project.Geometry (turning point function)", covers: []string{"project.Geometry", "project.Collection"},
		call:  func(g orb.Geometry) interface{} { return project.Geometry(g, turn) },
		typed: func(g orb.Geometry) (interface{}, bool) { return c20projectTyped(g, turn), true }})
	for _, sm := range []struct {
		n string
		s orb.Simplifier
		t func(orb.Geometry) (interface{}, bool)
	}{{"DouglasPeucker", dp, simplifyTyped(func() c20simplifier { return simplify.DouglasPeucker(0.5) })},
		{"Radial", rd, simplifyTyped(func() c20simplifier { return simplify.Radial(planar.Distance, 0.5) })},
		{"VisvalingamThreshold", vs, simplifyTyped(func() c20simplifier { return simplify.VisvalingamThreshold(0.5) })},
		{"VisvalingamKeep", vk, simplifyTyped(func() c20simplifier { return simplify.VisvalingamKeep(3) })}} {
		s := sm.s
		add(c20entry{name: "simplify." + sm.n + ".Simplify", covers: []string{"simplify.(DouglasPeuckerSimplifier).Simplify", "simplify.(RadialSimplifier).Simplify", "simplify.(VisvalingamSimplifier).Simplify"},
			call:  func(g orb.Geometry) interface{} { return s.Simplify(g) },
			typed: sm.t,
			combine: func(c orb.Collection, ms []interface{}) (interface{}, bool) {
				if len(c) == 0 {
					return orb.Geometry(nil), true
				}
				out := make(orb.Collection, len(ms))
				for i, m := range ms {
					out[i], _ = m.(orb.Geometry)
				}
				return orb.Geometry(out), true
			}})
	}
	// zoom 5, and the two smallest zooms, where every shortcut through a bound or a single tile has to be right as well
	for _, z := range []maptile.Zoom{5, 0, 1} {
		z := z
		zname := ""
		if z != 5 {
			zname = fmt.Sprintf(" (zoom %d)", z)
		}
		add(c20entry{name: "tilecover.Geometry" + zname, covers: []string{"tilecover.Geometry", "tilecover.Collection"}, readOnly: true,
			call: func(g orb.Geometry) interface{} {
				s, err := tilecover.Geometry(g, z)
				if err != nil {
					return "error: " + err.Error()
				}
				return trueTiles(s)
			},
			typed: func(g orb.Geometry) (interface{}, bool) {
				var s maptile.Set
				var err error
				switch x := g.(type) {
				case nil:
					return maptile.Set{}, true
				case orb.Point:
					s = tilecover.Point(x, z)
				case orb.MultiPoint:
					s = tilecover.MultiPoint(x, z)
				case orb.LineString:
					s = tilecover.LineString(x, z)
				case orb.MultiLineString:
					s = tilecover.MultiLineString(x, z)
				case orb.Ring:
					s, err = tilecover.Ring(x, z)
				case orb.Polygon:
					s, err = tilecover.Polygon(x, z)
				case orb.MultiPolygon:
					s, err = tilecover.MultiPolygon(x, z)
				case orb.Bound:
					s = tilecover.Bound(x, z)
				default:
					return nil, false
				}
				if err != nil {
					return "error: " + err.Error(), true
				}
				return trueTiles(s), true
			},
			combine: func(c orb.Collection, ms []interface{}) (interface{}, bool) {
				u := maptile.Set{}
				for _, m := range ms {
					s, ok := m.(maptile.Set)
					if !ok {
						return m, true // an error of a member is the collection's error
					}
					u.Merge(s)
				}
				return u, true
			}})
	}
	add(c20entry{name: "wkb.Marshal/Encoder/Value", covers: []string{"wkb.Marshal", "wkb.MustMarshal", "wkb.MarshalToHex", "wkb.MustMarshalToHex", "wkb.Value", "wkb.(Encoder).Encode"}, readOnly: true,
		call: func(g orb.Geometry) interface{} {
			b, err := wkb.Marshal(g)
			var buf bytes.Buffer
			err2 := wkb.NewEncoder(&buf).Encode(g)
			v, err3 := wkb.Value(g).Value()
			hx, err4 := wkb.MarshalToHex(g)
			return []interface{}{b, sv(err), buf.Bytes(), sv(err2), v, sv(err3), hx, sv(err4), wkb.MustMarshal(g), wkb.MustMarshalToHex(g)}
		}})
	// one encoder of each package for the whole run, reconfigured between and within calls the way its API allows:
	// whatever came before, Encode gives what Marshal gives for the configuration now in force
	{
		var lbuf bytes.Buffer
		lw, le := wkb.NewEncoder(&lbuf), ewkb.NewEncoder(&lbuf)
		n := 0
		add(c20entry{name: "long-lived wkb/ewkb Encoder, reconfigured between calls", readOnly: true,
			call: func(g orb.Geometry) interface{} {
				n++
				order := []binary.ByteOrder{binary.LittleEndian, binary.BigEndian}[n%2]
				lbuf.Reset()
				e1 := lw.SetByteOrder(order).Encode(g)
				a := append([]byte{}, lbuf.Bytes()...)
				lbuf.Reset()
				le.SetByteOrder(order).SetSRID(4326)
				e2 := le.Encode(g, 3857) // an SRID for this call only
				bOver := append([]byte{}, lbuf.Bytes()...)
				lbuf.Reset()
				e3 := le.Encode(g)
				bPlain := append([]byte{}, lbuf.Bytes()...)
				return []interface{}{a, sv(e1), bOver, sv(e2), bPlain, sv(e3), n % 2}
			},
			typed: func(g orb.Geometry) (interface{}, bool) {
				order := []binary.ByteOrder{binary.LittleEndian, binary.BigEndian}[n%2]
				a, e1 := wkb.Marshal(g, order)
				bOver, e2 := ewkb.Marshal(g, 3857, order)
				bPlain, e3 := ewkb.Marshal(g, 4326, order)
				norm := func(b []byte) []byte {
					if b == nil {
						return []byte{}
					}
					return b
				}
				return []interface{}{norm(a), sv(e1), norm(bOver), sv(e2), norm(bPlain), sv(e3), n % 2}, true
			}})
	}
	add(c20entry{name: "ewkb.Marshal/Encoder/Value", covers: []string{"ewkb.Marshal", "ewkb.MustMarshal", "ewkb.MarshalToHex", "ewkb.MustMarshalToHex", "ewkb.Value", "ewkb.ValuePrefixSRID", "ewkb.(Encoder).Encode"}, readOnly: true,
		call: func(g orb.Geometry) interface{} {
			b, err := ewkb.Marshal(g, 4326)
			var buf bytes.Buffer
			err2 := ewkb.NewEncoder(&buf).Encode(g, 4326)
			v, err3 := ewkb.Value(g, 4326).Value()
			p, err4 := ewkb.ValuePrefixSRID(g, 4326).Value()
			hx, err5 := ewkb.MarshalToHex(g, 4326)
			return []interface{}{b, sv(err), buf.Bytes(), sv(err2), v, sv(err3), p, sv(err4), hx, sv(err5), ewkb.MustMarshal(g, 4326), ewkb.MustMarshalToHex(g, 4326)}
		}})
	add(c20entry{name: "wkt.Marshal/MarshalString", covers: []string{"wkt.Marshal", "wkt.MarshalString"}, readOnly: true,
		call: func(g orb.Geometry) interface{} { return []interface{}{string(wkt.Marshal(g)), wkt.MarshalString(g)} }})
	add(c20entry{name: "geojson.NewGeometry.MarshalJSON/BSON, NewFeature marshal", covers: []string{"geojson.NewGeometry", "geojson.NewFeature"}, readOnly: true,
		call: func(g orb.Geometry) interface{} {
			gg := geojson.NewGeometry(g)
			j, err := gg.MarshalJSON()
			_, _, err2 := gg.MarshalBSONValue()
			f := geojson.NewFeature(g)
			fj, err3 := json.Marshal(f)
			_, err4 := bson.Marshal(f)
			return []interface{}{string(j), sv(err), sv(err2), string(fj), sv(err3), sv(err4)}
		}})
	return es
}

func isNilSlice(g orb.Geometry) bool {
	switch x := g.(type) {
	case orb.MultiPoint:
		return x == nil
	case orb.LineString:
		return x == nil
	case orb.MultiLineString:
		return x == nil
	case orb.Ring:
		return x == nil
	case orb.Polygon:
		return x == nil
	case orb.MultiPolygon:
		return x == nil
	case orb.Collection:
		return x == nil
	}
	return false
}

func hasNilSliceMember(g orb.Geometry) bool {
	if c, ok := g.(orb.Collection); ok {
		for _, m := range c {
			if isNilSlice(m) || hasNilSliceMember(m) {
				return true
			}
		}
	}
	return false
}

// sameResult compares two results: geometries bitwise (nil and empty slices alike), floats bitwise (NaN == NaN), everything else deeply.
type c20nothing struct{}

func sameResult(a, b interface{}) bool {
	if _, ok := b.(c20nothing); ok {
		if a == nil {
			return true
		}
		g, isG := a.(orb.Geometry)
		return isG && (g == nil || refmodel.NumVertices(g) == 0)
	}
	ga, oka := a.(orb.Geometry)
	gb, okb := b.(orb.Geometry)
	if oka || okb {
		if a == nil && b == nil {
			return true
		}
		if !oka && a != nil || !okb && b != nil {
			return false
		}
		return refmodel.EqualBits(ga, gb)
	}
	fa, oka := a.(float64)
	fb, okb := b.(float64)
	if oka && okb {
		return math.Float64bits(fa) == math.Float64bits(fb) || (fa != fa && fb != fb) || math.Abs(fa-fb) <= 1e-12*math.Max(math.Abs(fa), math.Abs(fb))
	}
	sa, oka := a.(maptile.Set)
	sb, okb := b.(maptile.Set)
	if oka && okb {
		return sameSet(sa, sb)
	}
	la, oka := a.([]interface{})
	lb, okb := b.([]interface{})
	if oka && okb {
		if len(la) != len(lb) {
			return false
		}
		for i := range la {
			if !sameResult(la[i], lb[i]) {
				return false
			}
		}
		return true
	}
	return reflect.DeepEqual(a, b)
}

// c20projectTyped is the projection package's kind-specific function for g's kind (the reference model for collections,
// which have no other kind-specific function than the one under test).
func c20projectTyped(g orb.Geometry, f orb.Projection) orb.Geometry {
	switch x := g.(type) {
	case orb.Point:
		return project.Point(x, f)
	case orb.MultiPoint:
		return project.MultiPoint(x, f)
	case orb.LineString:
		return project.LineString(x, f)
	case orb.MultiLineString:
		return project.MultiLineString(x, f)
	case orb.Ring:
		return project.Ring(x, f)
	case orb.Polygon:
		return project.Polygon(x, f)
	case orb.MultiPolygon:
		return project.MultiPolygon(x, f)
	case orb.Bound:
		return project.Bound(x, f)
	}
	return refProject(g, f)
}

// c20scribble overwrites every vertex of g in place (through the slices g holds).
func c20scribble(g orb.Geometry) {
	junk := orb.Point{-9.5e9, 7.25e-9}
	pts := func(ps []orb.Point) {
		for i := range ps {
			ps[i] = junk
		}
	}
	switch x := g.(type) {
	case orb.MultiPoint:
		pts(x)
	case orb.LineString:
		pts(x)
	case orb.Ring:
		pts(x)
	case orb.MultiLineString:
		for _, l := range x {
			pts(l)
		}
	case orb.Polygon:
		for _, l := range x {
			pts(l)
		}
	case orb.MultiPolygon:
		for _, p := range x {
			for _, l := range p {
				pts(l)
			}
		}
	case orb.Collection:
		for _, m := range x {
			c20scribble(m)
		}
	}
}

// lengthRef is what "length" means kind by kind: the sum of the segment distances of every line and ring;
// a bound is measured as its ring, points have none.
func lengthRef(g orb.Geometry, df orb.DistanceFunc) float64 {
	seg := func(ps []orb.Point) float64 {
		t := 0.0
		for i := 1; i < len(ps); i++ {
			t += df(ps[i-1], ps[i])
		}
		return t
	}
	t := 0.0
	switch x := g.(type) {
	case orb.LineString:
		return seg(x)
	case orb.Ring:
		return seg(x)
	case orb.MultiLineString:
		for _, l := range x {
			t += seg(l)
		}
	case orb.Polygon:
		for _, r := range x {
			t += seg(r)
		}
	case orb.MultiPolygon:
		for _, p := range x {
			t += lengthRef(p, df)
		}
	case orb.Bound:
		return seg(refmodel.BoundRing(x))
	case orb.Collection:
		for _, m := range x {
			t += lengthRef(m, df)
		}
	}
	return t
}

// c20values: the fixed value set (every kind as nil slice, empty, one-vertex, ordinary, degenerate members), also wrapped in collections.
func c20values() []orb.Geometry {
	sq := func(x, y, s float64) orb.Ring {
		return orb.Ring{{x, y}, {x + s, y}, {x + s, y + s}, {x, y + s}, {x, y}}
	}
	hole := orb.Ring{{3, 3}, {3, 4}, {4, 4}, {4, 3}, {3, 3}}
	p := orb.Point{3, 4}
	base := []orb.Geometry{
		orb.Point{0, 0}, p,
		orb.MultiPoint(nil), orb.MultiPoint{}, orb.MultiPoint{p}, orb.MultiPoint{{1, 1}, {5, 5}, {9, 2}},
		orb.LineString(nil), orb.LineString{}, orb.LineString{p}, orb.LineString{{1, 1}, {5, 5}, {9, 2}, {9, 2}},
		orb.MultiLineString(nil), orb.MultiLineString{}, orb.MultiLineString{orb.LineString{}}, orb.MultiLineString{orb.LineString{p}}, orb.MultiLineString{{{1, 1}, {5, 5}}, {}, {{9, 2}, {3, 8}, {4, 4}}},
		orb.Ring(nil), orb.Ring{}, orb.Ring{p}, orb.Ring{p, p}, sq(1, 1, 8), sq(1, 1, 8)[:4], // (the last: the same square without the repeated closing vertex)
		orb.Polygon(nil), orb.Polygon{}, orb.Polygon{orb.Ring{}}, orb.Polygon{orb.Ring{p}}, orb.Polygon{sq(1, 1, 8)}, orb.Polygon{sq(1, 1, 8), hole}, orb.Polygon{sq(1, 1, 8), orb.Ring{}}, orb.Polygon{sq(1, 1, 8), orb.Ring{p}}, orb.Polygon{sq(1, 1, 8)[:4], hole[:4]},
		orb.MultiPolygon(nil), orb.MultiPolygon{}, orb.MultiPolygon{orb.Polygon{}}, orb.MultiPolygon{orb.Polygon{orb.Ring{}}}, orb.MultiPolygon{{sq(1, 1, 3)}, orb.Polygon{}, {sq(5, 1, 4), orb.Ring{{6, 2}, {6, 3}, {7, 3}, {7, 2}, {6, 2}}}},
		orb.Bound{Min: orb.Point{1, 1}, Max: orb.Point{4, 5}}, orb.Bound{Min: p, Max: p}, orb.Bound{},
		orb.Collection(nil), orb.Collection{},
	}
	out := []orb.Geometry{nil}
	out = append(out, base...)
	for _, g := range base {
		out = append(out, orb.Collection{refmodel.Copy(g)})
		out = append(out, orb.Collection{orb.Point{2, 2}, orb.Collection{refmodel.Copy(g), orb.LineString{{0, 0}, {2, 3}}}})
	}
	var all orb.Collection
	for _, g := range base {
		all = append(all, refmodel.Copy(g))
	}
	out = append(out, all, orb.Collection{orb.Collection{orb.Collection{orb.Collection{refmodel.Copy(all)}}}})
	return out
}

func init() {
	var registry []c20entry
	var values []orb.Geometry
	setup := func() {
		if registry == nil {
			registry = c20registry()
			values = c20values()
		}
	}
	runEntry := func(c *h.Ctx, e *c20entry, g orb.Geometry) {
		snap := refmodel.Copy(g)
		d := func() map[string]interface{} {
			return map[string]interface{}{"function": e.name, "kind": refmodel.KindName(snap), "value": fmt.Sprintf("%#v", snap)}
		}
		arg := refmodel.Copy(g)
		var res interface{}
		pv, st := h.Catch(func() { res = e.call(arg) })
		c.Eval()
		if pv != nil {
			c.Fail("", "a generic entry point panicked", map[string]interface{}{"case": d(), "panic": sv(pv), "stack": st})
			return
		}
		if e.readOnly && (!refmodel.EqualBits(arg, snap) || isNilSlice(arg) != isNilSlice(snap)) {
			c.Fail("", "a read-only function changed its argument", map[string]interface{}{"case": d(), "after": fmt.Sprintf("%#v", arg)})
		}
		if e.name == "orb.Clone" {
			// the clone is a value of its own: once it has been judged, overwriting every vertex of it must leave the argument as it was
			defer func() {
				if rg, ok := res.(orb.Geometry); ok && rg != nil {
					if !partsIndependent(rg) {
						c.Fail("", "the parts of a clone share memory: appending to one part overwrites another", map[string]interface{}{"case": d(), "clone_now": fmt.Sprintf("%#v", rg)})
					}
					c20scribble(rg)
					if !refmodel.EqualBits(arg, snap) {
						c.Fail("", "writing to the vertices of a clone changed the value it was cloned from", map[string]interface{}{"case": d(), "after": fmt.Sprintf("%#v", arg)})
					}
				}
			}()
		}
		if e.typed != nil {
			var want interface{}
			var ok bool
			pv, st := h.Catch(func() { want, ok = e.typed(refmodel.Copy(g)) })
			if pv != nil {
				c.Fail("", "the kind-specific function panicked", map[string]interface{}{"case": d(), "panic": sv(pv), "stack": st})
			} else if ok && !sameResult(res, want) {
				c.Fail("", "the generic entry point does not return what the kind-specific function returns", map[string]interface{}{"case": d(), "generic": fmt.Sprintf("%#v", res), "typed": fmt.Sprintf("%#v", want)})
			}
			c.Eval()
		}
		if coll, ok := g.(orb.Collection); ok && e.combine != nil && len(coll) > 0 {
			ms := make([]interface{}, len(coll))
			bad := false
			for i, m := range coll {
				mm := refmodel.Copy(m)
				if pv, _ := h.Catch(func() { ms[i] = e.call(mm) }); pv != nil {
					bad = true
				}
			}
			if !bad {
				if want, ok := e.combine(coll, ms); ok && !sameResult(res, want) {
					c.Fail("", "a collection is not treated as the combination of its members", map[string]interface{}{"case": d(), "collection_result": fmt.Sprintf("%#v", res), "combined_member_results": fmt.Sprintf("%#v", want)})
				}
				c.Eval()
			}
		}
	}

	h.Register(&h.Monitor{
		ID: "C20",
		Rule: "every registered generic entry point (clone, equal, round, bound, planar/geodesic area, length, distance, clip with a containing and a cutting box, smart clip, project, four simplifiers, tile cover, WKB/EWKB/WKT/GeoJSON/BSON encoders) x a fixed value set (nil interface; every kind as nil slice, empty, one-vertex and ordinary; zero-ring polygons in multi-polygons, zero- and one-vertex rings in polygons, empty and one-vertex lines; each also wrapped in one and two levels of collection; all of them in one collection nested four deep) plus random grammar values; a syntactic enumeration of /repo lists exported functions with a geometry parameter that the registry does not drive. " +
			"non-trivial = a (function, value) pair whose value has a degenerate or nil part or is a collection; distinct = hash of (function, value)",
		MinNontrivial: h.Fixed(2000, 50000),
		Assumptions: []string{
			"members of collections are never nil interfaces (Collection.Dimensions is undefined there); documented mutators (Round, 2-d clip, project, simplify) are excluded from the read-only clause only",
			"ordinary values are well-formed (closed, non-self-intersecting rings); degenerate values are the listed degenerate forms",
		},
		Subs: []h.Sub{
			{
				Name: "registry-x-fixed-values", Count: func(string) uint64 { setup(); return uint64(len(values)) }, Exhaustive: h.Always,
				Run: func(c *h.Ctx, idx uint64, r *h.Rand) {
					setup()
					g := values[idx]
					for i := range registry {
						runEntry(c, &registry[i], g)
						c.Nontrivial(h.Mix(h.HashString(registry[i].name), idx))
					}
					if idx%17 == 3 {
						c.Sample(map[string]interface{}{"value": fmt.Sprintf("%#v", g), "functions": len(registry)})
					}
				},
			},
			{
				Name: "registry-x-random-values", Count: h.Fixed(400, 400000),
				Run: func(c *h.Ctx, idx uint64, r *h.Rand) {
					setup()
					// well-formed random values: squares and lines on a small grid, degenerate members mixed in
					var mk func(depth int) orb.Geometry
					sq := func() orb.Ring {
						x, y, s := float64(r.Range(0, 8)), float64(r.Range(0, 8)), float64(r.Range(1, 4))
						return orb.Ring{{x, y}, {x + s, y}, {x + s, y + s}, {x, y + s}, {x, y}}
					}
					pts := func() []orb.Point {
						n := r.Range(0, 5)
						o := make([]orb.Point, n)
						for i := range o {
							o[i] = orb.Point{float64(r.Range(0, 10)), float64(r.Range(0, 10))}
						}
						return o
					}
					mk = func(depth int) orb.Geometry {
						k := r.Intn(9)
						if k == 7 && depth <= 0 {
							k = 2
						}
						switch k {
						case 0:
							return orb.Point{float64(r.Range(0, 10)), float64(r.Range(0, 10))}
						case 1:
							return orb.MultiPoint(pts())
						case 2:
							return orb.LineString(pts())
						case 3:
							return orb.MultiLineString{pts(), pts()}
						case 4:
							return sq()
						case 5:
							pg := orb.Polygon{sq()}
							if r.P(1, 4) {
								pg = append(pg, orb.Ring{})
							}
							return pg
						case 6:
							mp := orb.MultiPolygon{{sq()}}
							if r.Bool() {
								mp = append(mp, orb.Polygon{})
							}
							return mp
						case 7:
							c := orb.Collection{}
							for n := r.Intn(4); n > 0; n-- {
								c = append(c, mk(depth-1))
							}
							return c
						default:
							return orb.Bound{Min: orb.Point{1, 2}, Max: orb.Point{float64(r.Range(1, 9)), float64(r.Range(2, 9))}}
						}
					}
					g := mk(4)
					for i := range registry {
						runEntry(c, &registry[i], g)
					}
					c.Nontrivial(refmodel.Hash(g))
					c.Sample(map[string]interface{}{"value": fmt.Sprintf("%#v", g)})
				},
			},
			{
				// values whose rings / lines are windows into one flat buffer with spare capacity behind each of them:
				// a read-only function must not write beyond len() either (append into the caller's spare capacity)
				Name: "read-only-with-shared-buffers", Count: h.Fixed(200, 200000),
				Run: func(c *h.Ctx, idx uint64, r *h.Rand) {
					setup()
					flat := make([]orb.Point, 40)
					fill := func() {
						// four unclosed squares of 4 vertices and lines in between, all inside one buffer
						k := 0
						for q := 0; q < 4; q++ {
							x, y, sz := float64(2+q*6), float64(r.Range(1, 5)), float64(r.Range(1, 4))
							for _, p := range []orb.Point{{x, y}, {x + sz, y}, {x + sz, y + sz}, {x, y + sz}} {
								flat[k] = p
								k++
							}
						}
						for ; k < len(flat); k++ {
							flat[k] = orb.Point{float64(r.Range(0, 30)), float64(r.Range(0, 10))}
						}
					}
					fill()
					mk := func() orb.Geometry {
						switch r.Intn(6) {
						case 0:
							return orb.Polygon{orb.Ring(flat[0:4]), orb.Ring(flat[4:8])}
						case 1:
							return orb.MultiPolygon{{orb.Ring(flat[0:4])}, {orb.Ring(flat[4:8]), orb.Ring(flat[8:12])}}
						case 2:
							return orb.Ring(flat[4:8])
						case 3:
							return orb.MultiLineString{orb.LineString(flat[16:19]), orb.LineString(flat[19:24])}
						case 4:
							return orb.Collection{orb.Polygon{orb.Ring(flat[0:4])}, orb.LineString(flat[16:20]), orb.MultiPoint(flat[20:23])}
						default:
							return orb.Collection{orb.Collection{orb.MultiPolygon{{orb.Ring(flat[8:12])}, {orb.Ring(flat[12:16])}}}, orb.Ring(flat[0:4])}
						}
					}
					g := mk()
					snap := append([]orb.Point{}, flat...)
					for i := range registry {
						e := &registry[i]
						if !e.readOnly {
							continue
						}
						if pv, st := h.Catch(func() { e.call(g) }); pv != nil {
							c.Fail("", "a generic entry point panicked", map[string]interface{}{"function": e.name, "value": fmt.Sprintf("%#v", g), "panic": sv(pv), "stack": st})
						}
						c.Eval()
						if !bitsEqualPts(flat, snap) {
							c.Fail("", "a read-only function wrote into the caller's memory (beyond or inside the argument's slices)", map[string]interface{}{"function": e.name, "value": fmt.Sprintf("%#v", g), "buffer_before": sv(snap), "buffer_after": sv(flat)})
							copy(flat, snap)
						}
					}
					c.Nontrivial(h.Mix(0x5b, idx))
					c.Sample(map[string]interface{}{"value": fmt.Sprintf("%#v", g), "note": "rings and lines are windows into one 40-point buffer"})
				},
			},
			{
				Name: "registry-completeness", Count: h.Fixed(1, 1), Serial: true,
				Run: func(c *h.Ctx, idx uint64, r *h.Rand) {
					setup()
					repo := os.Getenv("VERIF_REPO")
					if repo == "" {
						repo = "/repo"
					}
					found := c20enumerate(repo)
					covered := map[string]bool{}
					for _, e := range registry {
						for _, n := range e.covers {
							covered[n] = true
						}
					}
					var un []string
					for _, n := range found {
						if !covered[n] {
							un = append(un, n)
						}
					}
					c.Count("exported_functions_with_geometry_parameter", int64(len(found)))
					c.Count("of_those_not_driven_by_the_registry", int64(len(un)))
					c.Eval()
					c.Sample(map[string]interface{}{"UNMONITORED": un, "discovered": found})
					c.Nontrivial(1)
					c.Nontrivial(2)
				},
			},
		},
	})
}

// c20enumerate lists exported functions and methods in the repository (non-test files) that take an orb.Geometry parameter.
func c20enumerate(repo string) []string {
	var out []string
	fset := token.NewFileSet()
	filepath.Walk(repo, func(path string, info os.FileInfo, err error) error {
		if err != nil || info.IsDir() || !strings.HasSuffix(path, ".go") || strings.HasSuffix(path, "_test.go") || strings.Contains(path, "/internal/") || strings.Contains(path, "/.git/") {
			return nil
		}
		f, err := parser.ParseFile(fset, path, nil, 0)
		if err != nil {
			return nil
		}
		pkg := f.Name.Name
		for _, dcl := range f.Decls {
			fd, ok := dcl.(*ast.FuncDecl)
			if !ok || !fd.Name.IsExported() {
				continue
			}
			takes := false
			for _, p := range fd.Type.Params.List {
				switch t := p.Type.(type) {
				case *ast.SelectorExpr:
					if x, ok := t.X.(*ast.Ident); ok && x.Name == "orb" && t.Sel.Name == "Geometry" {
						takes = true
					}
				case *ast.Ident:
					if pkg == "orb" && t.Name == "Geometry" {
						takes = true
					}
				}
			}
			if !takes {
				continue
			}
			name := pkg + "." + fd.Name.Name
			if fd.Recv != nil && len(fd.Recv.List) == 1 {
				rt := fd.Recv.List[0].Type
				if st, ok := rt.(*ast.StarExpr); ok {
					rt = st.X
				}
				if id, ok := rt.(*ast.Ident); ok {
					if !id.IsExported() {
						continue
					}
					name = pkg + ".(" + id.Name + ")." + fd.Name.Name
				}
			}
			out = append(out, name)
		}
		return nil
	})
	sort.Strings(out)
	return out
}
