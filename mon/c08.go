package mon

import (
	"fmt"
	"math"

	"github.com/paulmach/orb"
	"github.com/paulmach/orb/clip"
	"github.com/paulmach/orb/encoding/mvt"
	"github.com/paulmach/orb/geojson"

	"verif/internal/exact"
	"verif/internal/gen"
	"verif/internal/h"
	"verif/internal/refmodel"
)

// C08 — ring / polygon clipping keeps exactly the region inside the box.
//
// Oracle: Sutherland–Hodgman against a half-plane fixes every point inside the
// half-plane, so the even-odd parity of every point strictly inside the box is
// preserved for arbitrary closed vertex lists. Parity is computed by an
// independent exact crossing-number routine.

func farFrom(q P, ring []P, d float64) bool {
	if len(ring) == 0 {
		return true
	}
	return exact.DistToPolyline(q, ring, true) > d
}

func shoelace(ring []P) float64 {
	s := 0.0
	n := len(ring)
	for i := 0; i < n; i++ {
		a, b := ring[i], ring[(i+1)%n]
		s += a[0]*b[1] - b[0]*a[1]
	}
	return s / 2
}

func inBoxTol(p P, box [4]float64, tol float64) bool {
	return p[0] >= box[0]-tol && p[0] <= box[2]+tol && p[1] >= box[1]-tol && p[1] <= box[3]+tol && p[0] == p[0] && p[1] == p[1]
}

var c08ret retained

type c08case struct {
	Box  [4]float64 `json:"box_minx_miny_maxx_maxy"`
	Ring []P        `json:"ring"`
}

// c08queries returns query points strictly inside the box.
func c08queries(r *h.Rand, box [4]float64, n int) []P {
	out := make([]P, 0, n)
	w, ht := box[2]-box[0], box[3]-box[1]
	for i := 0; i < n; i++ {
		var q P
		if i%2 == 0 {
			q = P{box[0] + r.Uniform(0.001, 0.999)*w, box[1] + r.Uniform(0.001, 0.999)*ht}
		} else {
			// quarter-offset lattice points inside the box (off the half-integer grid lines)
			q = P{math.Floor(box[0]+r.Float64()*w) + 0.25 + 0.5*float64(r.Intn(2)), math.Floor(box[1]+r.Float64()*ht) + 0.25 + 0.5*float64(r.Intn(2))}
			if !(q[0] > box[0] && q[0] < box[2] && q[1] > box[1] && q[1] < box[3]) {
				q = P{box[0] + r.Uniform(0.001, 0.999)*w, box[1] + r.Uniform(0.001, 0.999)*ht}
			}
		}
		out = append(out, q)
	}
	return out
}

// c08ring judges clip.Ring on one closed ring. Returns the clipped ring.
func c08ring(c *h.Ctx, r *h.Rand, box [4]float64, ring []P, queries []P) orb.Ring {
	b := boundOf(box[0], box[1], box[2], box[3])
	scale := math.Max(maxAbs(ring), math.Max(math.Abs(box[2]), math.Abs(box[3])))
	tol := 1e-9 * scale
	cs := c08case{box, ring}
	out := clip.Ring(b, pToRing(ring))
	c.Eval()
	c08ret.check(c)
	if out != nil {
		c08ret.set(out, "clip.Ring")
	}
	if out != nil && len(out) == 0 {
		c.Fail("", "clip.Ring returned an empty non-nil ring", cs)
	}
	op := lsToP(out)
	if len(op) > 0 && op[0] != op[len(op)-1] {
		c.Fail("", "clipped ring is not closed", map[string]interface{}{"case": cs, "got": sv(out)})
	}
	for _, v := range op {
		if !inBoxTol(v, box, tol) {
			c.Fail("", "clipped ring has a vertex outside the box", map[string]interface{}{"case": cs, "vertex": v, "got": sv(out)})
			break
		}
	}
	// parity of interior query points
	for _, q := range queries {
		if !farFrom(q, ring, 1e-6*scale) || !farFrom(q, op, 1e-6*scale) {
			continue
		}
		in0, _ := exact.Locate(ring, q)
		in1, _ := exact.Locate(op, q)
		c.Eval()
		if in0 != in1 {
			c.Fail("", "a point strictly inside the box changed sides: in(original) != in(clipped)", map[string]interface{}{"case": cs, "point": q, "in_original": in0, "in_clipped": in1, "got": sv(out)})
			break
		}
		if in0 {
			c.Count("parity_queries_inside", 1)
		} else {
			c.Count("parity_queries_outside", 1)
		}
	}
	// wholly inside -> unchanged; bound misses the box -> nil
	allIn, minx, miny, maxx, maxy := true, math.Inf(1), math.Inf(1), math.Inf(-1), math.Inf(-1)
	for _, v := range ring {
		if v[0] < box[0] || v[0] > box[2] || v[1] < box[1] || v[1] > box[3] {
			allIn = false
		}
		minx, miny, maxx, maxy = math.Min(minx, v[0]), math.Min(miny, v[1]), math.Max(maxx, v[0]), math.Max(maxy, v[1])
	}
	if allIn {
		c.Count("wholly_inside", 1)
		if !bitsEqualPts(out, pToRing(ring)) {
			c.Fail("", "a ring wholly inside the box does not come back unchanged", map[string]interface{}{"case": cs, "got": sv(out)})
		}
	}
	if maxx < box[0] || minx > box[2] || maxy < box[1] || miny > box[3] {
		c.Count("bound_disjoint", 1)
		if out != nil {
			c.Fail("", "a ring whose bound misses the box does not clip to nil", map[string]interface{}{"case": cs, "got": sv(out)})
		}
	}
	// region disjoint from the open box -> no area
	ctr := P{(box[0] + box[2]) / 2, (box[1] + box[3]) / 2}
	if len(clipLineOracle(box[0], box[1], box[2], box[3], ring, true)) == 0 {
		if in, on := exact.Locate(ring, ctr); !in && !on {
			c.Count("region_disjoint", 1)
			// (for self-overlapping lists the signed area counts windings, there the parity queries decide)
			if a := math.Abs(shoelace(op)); a > tol*scale && exact.IsSimpleRing(ring) {
				c.Fail("", "region disjoint from the open box but the clipped ring has area", map[string]interface{}{"case": cs, "area": a, "got": sv(out)})
			}
		}
	}
	// signed area additive over a split of the box
	for k := 0; k < 2; k++ {
		var b1, b2 [4]float64
		if k == 0 {
			sx := box[0] + (box[2]-box[0])*r.Uniform(0.05, 0.95)
			if r.Bool() {
				sx = math.Round(sx*2) / 2
			}
			if !(sx > box[0] && sx < box[2]) {
				continue
			}
			b1, b2 = [4]float64{box[0], box[1], sx, box[3]}, [4]float64{sx, box[1], box[2], box[3]}
		} else {
			sy := box[1] + (box[3]-box[1])*r.Uniform(0.05, 0.95)
			if r.Bool() {
				sy = math.Round(sy*2) / 2
			}
			if !(sy > box[1] && sy < box[3]) {
				continue
			}
			b1, b2 = [4]float64{box[0], box[1], box[2], sy}, [4]float64{box[0], sy, box[2], box[3]}
		}
		o1 := clip.Ring(boundOf(b1[0], b1[1], b1[2], b1[3]), pToRing(ring))
		o2 := clip.Ring(boundOf(b2[0], b2[1], b2[2], b2[3]), pToRing(ring))
		c.Evals(2)
		a, a1, a2 := shoelace(op), shoelace(lsToP(o1)), shoelace(lsToP(o2))
		if math.Abs(a-(a1+a2)) > 1e-9*scale*scale {
			c.Fail("", "signed area is not additive over a split of the box", map[string]interface{}{"case": cs, "split": []interface{}{b1, b2}, "area": a, "area1": a1, "area2": a2})
		}
	}
	return out
}

func c08box(r *h.Rand, lo, hi float64, half bool) [4]float64 {
	for {
		x0, x1 := r.Uniform(lo, hi), r.Uniform(lo, hi)
		y0, y1 := r.Uniform(lo, hi), r.Uniform(lo, hi)
		if half {
			x0, x1, y0, y1 = math.Round(x0*2)/2, math.Round(x1*2)/2, math.Round(y0*2)/2, math.Round(y1*2)/2
		}
		if x0 > x1 {
			x0, x1 = x1, x0
		}
		if y0 > y1 {
			y0, y1 = y1, y0
		}
		if x1-x0 >= 0.5 && y1-y0 >= 0.5 {
			return [4]float64{x0, y0, x1, y1}
		}
	}
}

// c08genRing makes a closed ring of one of several shapes.
func c08genRing(r *h.Rand) (ring []P, kind string) {
	if r.P(1, 12) {
		// a zigzag sweeping across the whole box: vertices alternately far to the left and far to the right of it, heights
		// halving from far above down to inside (each clipping pass adds about half as many vertices again)
		k := r.Range(5, 13)
		y := math.Ldexp(1, k+3)
		var l []P
		for i := 0; i < k; i++ {
			l = append(l, P{-float64(r.Range(5, 20)), -y / 2}, P{12 + float64(r.Range(5, 20)), y})
			y /= 2
		}
		return gen.Close(l), "sweeping-zigzag"
	}
	switch r.Intn(6) {
	case 0:
		return gen.Close(gen.GridList(r, r.Range(3, 9), 0, 1, 12)), "grid"
	case 1:
		return gen.Close(gen.GridList(r, r.Range(3, 9), 0, 0.5, 24)), "half-grid"
	case 2:
		if rr := gen.SimpleRing(r, r.Range(3, 12), r.Uniform(2, 10), r.Uniform(2, 10), 0.5, 6, 0); rr != nil {
			return rr, "star"
		}
		return gen.Close(gen.GridList(r, 4, 0, 1, 12)), "grid"
	case 3:
		if rr := gen.SimpleRing(r, r.Range(3, 10), float64(r.Range(3, 9)), float64(r.Range(3, 9)), 1, 6, 0.5); rr != nil {
			return rr, "star-half-grid"
		}
		return gen.Close(gen.GridList(r, 4, 0, 0.5, 24)), "half-grid"
	case 4:
		// self-touching: a grid ring revisiting one of its vertices
		l := gen.GridList(r, r.Range(4, 8), 0, 1, 12)
		l = append(l, l[r.Intn(len(l)-1)])
		l = append(l, gen.GridList(r, 2, 0, 1, 12)...)
		return gen.Close(l), "self-touching"
	default:
		n := r.Range(3, 12)
		l := make([]P, n)
		for i := range l {
			l[i] = P{r.Uniform(-2, 14), r.Uniform(-2, 14)}
		}
		return gen.Close(l), "arbitrary-float"
	}
}

func boolF(b bool) float64 {
	if b {
		return 1
	}
	return 0
}

// c08comb: an outer ring with m triangular spikes through the top side of the returned box, plus small holes in its base.
func c08comb(r *h.Rand) ([][]P, [4]float64) {
	m := r.Range(5, 16)
	w := float64(2 * m)
	outer := []P{{0, 0}, {w, 0}, {w, 2}}
	for i := m - 1; i >= 0; i-- {
		x := float64(2 * i)
		outer = append(outer, P{x + 1.5, 2}, P{x + 1, r.Uniform(5, 8)}, P{x + 0.5, 2})
	}
	outer = append(outer, P{0, 2}, P{0, 0})
	rings := [][]P{outer}
	for k := r.Range(1, 3); k > 0; k-- {
		x := float64(r.Range(0, int(w)-2)) + 0.25*float64(k)
		rings = append(rings, []P{{x, 0.5}, {x, 1.5}, {x + 0.5, 1.5}, {x + 0.5, 0.5}, {x, 0.5}})
	}
	box := [4]float64{-1 + r.Uniform(0, 2), -1, w + 1 - r.Uniform(0, 2), r.Uniform(3, 4.5)}
	return rings, box
}

func walkVertices(g orb.Geometry, f func(orb.Point)) {
	switch g := g.(type) {
	case nil:
	case orb.Point:
		f(g)
	case orb.MultiPoint:
		for _, p := range g {
			f(p)
		}
	case orb.LineString:
		for _, p := range g {
			f(p)
		}
	case orb.Ring:
		for _, p := range g {
			f(p)
		}
	case orb.MultiLineString:
		for _, l := range g {
			for _, p := range l {
				f(p)
			}
		}
	case orb.Polygon:
		for _, l := range g {
			for _, p := range l {
				f(p)
			}
		}
	case orb.MultiPolygon:
		for _, pg := range g {
			for _, l := range pg {
				for _, p := range l {
					f(p)
				}
			}
		}
	case orb.Collection:
		for _, m := range g {
			walkVertices(m, f)
		}
	case orb.Bound:
		f(g.Min)
		f(g.Max)
	}
}

// typedEmpty reports whether g is a typed value without any vertex (a generic
// clip must return nil instead).
func typedEmpty(g orb.Geometry) bool {
	if g == nil {
		return false
	}
	n := 0
	walkVertices(g, func(orb.Point) { n++ })
	return n == 0
}

func polyToP(p orb.Polygon) [][]P {
	out := make([][]P, len(p))
	for i := range p {
		out[i] = lsToP(p[i])
	}
	return out
}

func inPolyModel(rings [][]P, q P) bool {
	if len(rings) == 0 {
		return false
	}
	in, _ := exact.Locate(rings[0], q)
	if !in {
		return false
	}
	for _, hr := range rings[1:] {
		if in, _ := exact.Locate(hr, q); in {
			return false
		}
	}
	return true
}

func init() {
	h.Register(&h.Monitor{
		ID: "C08",
		Rule: "closed rings of six shapes (integer grid, half-integer grid, simple star in general position, simple star on the half grid, self-touching grid rings, arbitrary float vertex lists) against boxes on the half grid or in general position; polygons with validated interior holes, multi-polygons, mixed collections, mvt layers; boxes of 2^-540..2^-1000 at the origin inside or outside ordinary rings, and boxes whose far sides are moved between just beyond the ring, 1e300, 1.5e308 and infinity. " +
			"non-trivial = the ring's boundary has a positive-length part inside the closed box or the box centre is inside the ring; distinct = hash of (box, vertices)",
		MinNontrivial: h.Fixed(10000, 500000),
		Assumptions: []string{
			"parity oracle: exact crossing number; query points strictly inside the box, farther than 1e-6*scale from the input and the output ring",
			"vertices may leave the box by 1e-9*scale (the property allows floating-point rounding); areas compared within 1e-9*scale^2",
			"'region disjoint from the box yields nothing' is read as 'no area' (a degenerate sliver along the border is legitimate for Sutherland-Hodgman)",
		},
		Subs: []h.Sub{
			{
				Name: "rings", Count: h.Fixed(30000, 6000000),
				Run: func(c *h.Ctx, idx uint64, r *h.Rand) {
					ring, kind := c08genRing(r)
					half := kind != "star" && kind != "arbitrary-float" || r.P(1, 3)
					box := c08box(r, -1, 13, half)
					if r.P(1, 4) {
						// vertices a hair inside / outside a box side (1e-8 .. 1e-6): must be clipped like any other
						ring = append([]P{}, ring...)
						for k := r.Range(1, 3); k > 0; k-- {
							i := r.Intn(len(ring) - 1)
							eps := []float64{1e-6, 3e-7, 1e-7, 5e-8}[r.Intn(4)]
							if r.Bool() {
								eps = -eps
							}
							if r.Bool() {
								ring[i][0] = box[r.Intn(2)*2] + eps
							} else {
								ring[i][1] = box[1+r.Intn(2)*2] + eps
							}
							if r.Bool() && i+1 < len(ring)-1 { // and its neighbour too: an edge running just beside the side
								ring[i+1][0], ring[i+1][1] = ring[i][0]+r.Uniform(-1, 1)*boolF(ring[i][0] != box[0] && ring[i][0] != box[2]), ring[i][1]+r.Uniform(-1, 1)
							}
						}
						ring[len(ring)-1] = ring[0]
						kind += "+near-side"
					}
					c.Note([]byte(fmt.Sprintf("box=%v ring=%v", box, ring)))
					out := c08ring(c, r, box, ring, c08queries(r, box, 30))
					c.Count("ring_kind_"+kind, 1)
					ctr := P{(box[0] + box[2]) / 2, (box[1] + box[3]) / 2}
					in, _ := exact.Locate(ring, ctr)
					if in || len(clipLineOracle(box[0], box[1], box[2], box[3], ring, false)) > 0 {
						c.Nontrivial(h.Mix(hashP(ring), h.HashFloats(box[:]...)))
						c.Sample(map[string]interface{}{"kind": kind, "box": box, "ring": ring, "clipped": sv(out)})
					}
					// generic entry agrees with the typed one
					g := clip.Geometry(boundOf(box[0], box[1], box[2], box[3]), pToRing(ring))
					c.Eval()
					if out == nil {
						if g != nil {
							c.Fail("", "clip.Geometry(Ring) is not nil although clip.Ring is", map[string]interface{}{"case": c08case{box, ring}, "got": sv(g)})
						}
					} else if rg, ok := g.(orb.Ring); !ok || !bitsEqualPts(rg, out) {
						c.Fail("", "clip.Geometry(Ring) differs from clip.Ring", map[string]interface{}{"case": c08case{box, ring}, "got": sv(g), "typed": sv(out)})
					}
				},
			},
			{
				// boxes very unlike the ring in size. (a) A box far smaller than anything about the ring (sides of 2^-540 ..
				// 2^-1000 at the origin; products of two such lengths are not representable): where the ring's boundary keeps
				// away from it, the box is wholly inside the region (the clipped ring covers it) or wholly outside (nothing of
				// it is covered). (b) A box side that lies beyond every vertex does not matter: wherever it is put (just
				// beyond the ring, 1e300, 1.5e308 - a box wider than the largest float -, infinity: half planes, strips,
				// quadrants), the clipped ring is the same, bit for bit.
				Name: "boxes-of-extreme-size", Count: h.Fixed(6000, 1000000),
				Run: func(c *h.Ctx, idx uint64, r *h.Rand) {
					ring, kind := c08genRing(r)
					if idx%2 == 0 {
						// ---- (a)
						sx, sy := float64(r.Range(-24, 4))/2, float64(r.Range(-24, 4))/2
						ring = append([]P{}, ring...)
						for i := range ring {
							ring[i][0] += sx
							ring[i][1] += sy
						}
						dx, dy := math.Ldexp(1, -r.Range(540, 1000)), math.Ldexp(1, -r.Range(540, 1000))
						if r.P(1, 4) {
							dx = math.Ldexp(1, -r.Range(2, 60)) // a sliver: one side tiny only
						}
						box := [4]float64{0, 0, dx, dy}
						switch r.Intn(4) {
						case 0:
							box = [4]float64{-dx, -dy, 0, 0}
						case 1:
							box = [4]float64{-dx, -dy, dx, dy}
						case 2:
							box = [4]float64{-dx, 0, dx, dy}
						}
						ctr := P{(box[0] + box[2]) / 2, (box[1] + box[3]) / 2}
						scale := math.Max(maxAbs(ring), 1)
						if !farFrom(ctr, ring, 1e-6*scale) || math.Max(dx, dy) > 1e-9 {
							c.Count("tiny_boxes_close_to_the_boundary_(not_judged)", 1)
							return
						}
						cs := c08case{box, ring}
						c.Note([]byte(fmt.Sprintf("box=%v ring=%v", box, ring)))
						out := clip.Ring(boundOf(box[0], box[1], box[2], box[3]), pToRing(ring))
						c.Eval()
						op := lsToP(out)
						in0, _ := exact.Locate(ring, ctr)
						probes := []P{ctr}
						for _, f := range [][2]float64{{0.25, 0.25}, {0.75, 0.25}, {0.75, 0.75}, {0.25, 0.75}} {
							probes = append(probes, P{box[0] + f[0]*(box[2]-box[0]), box[1] + f[1]*(box[3]-box[1])})
						}
						if len(op) > 0 && op[0] != op[len(op)-1] {
							c.Fail("", "clipped ring is not closed", map[string]interface{}{"case": cs, "got": sv(out)})
						}
						for _, v := range op {
							if !inBoxTol(v, box, 1e-9*math.Max(dx, dy)) {
								c.Fail("", "clipped ring has a vertex outside the box", map[string]interface{}{"case": cs, "vertex": v, "got": sv(out)})
								break
							}
						}
						for _, q := range probes {
							in1, on1 := exact.Locate(op, q)
							if on1 {
								continue
							}
							if in1 != in0 {
								c.Fail("", "a point strictly inside the box changed sides: in(original) != in(clipped)", map[string]interface{}{"case": cs, "point": q, "in_original": in0, "in_clipped": in1, "got": sv(out), "box_sides": []float64{dx, dy}})
								break
							}
						}
						if in0 {
							c.Count("tiny_boxes_wholly_inside_the_region", 1)
							c.Nontrivial(h.Mix(hashP(ring), h.HashFloats(box[:]...)))
						} else {
							c.Count("tiny_boxes_wholly_outside_the_region", 1)
						}
						c.Count("ring_kind_"+kind, 1)
						return
					}
					// ---- (b)
					box := c08box(r, -1, 13, kind != "star" && kind != "arbitrary-float" || r.P(1, 3))
					ext := maxAbs(ring) + 1
					farMax := []float64{math.Inf(1), 1.5e308, math.MaxFloat64, 1e300, 1e6, ext + 7, ext}
					b1, b2 := box, box
					sides := 1 + r.Intn(15)
					for k := 0; k < 4; k++ {
						if sides&(1<<uint(k)) == 0 {
							continue
						}
						i, j := r.Intn(len(farMax)), r.Intn(len(farMax)-1)
						if j >= i {
							j++
						}
						b1[k], b2[k] = farMax[i], farMax[j]
						if k < 2 {
							b1[k], b2[k] = -b1[k], -b2[k]
						}
					}
					c.Note([]byte(fmt.Sprintf("box1=%v box2=%v ring=%v", b1, b2, ring)))
					o1 := clip.Ring(boundOf(b1[0], b1[1], b1[2], b1[3]), pToRing(ring))
					o2 := clip.Ring(boundOf(b2[0], b2[1], b2[2], b2[3]), pToRing(ring))
					c.Evals(2)
					if !bitsEqualPts(o1, o2) || (o1 == nil) != (o2 == nil) {
						c.Fail("", "moving a box side that lies beyond every vertex changes the clipped ring", map[string]interface{}{"ring": ring, "box1": b1, "box2": b2, "clipped1": sv(o1), "clipped2": sv(o2)})
					}
					if sides == 15 {
						if !bitsEqualPts(o1, pToRing(ring)) {
							c.Fail("", "a ring wholly inside the box does not come back unchanged", map[string]interface{}{"case": c08case{b1, ring}, "got": sv(o1)})
						}
					} else {
						// the sides left in place still cut: vertices within the box
						for _, v := range o1 {
							if !inBoxTol(P{v[0], v[1]}, b1, 1e-9*ext) {
								c.Fail("", "clipped ring has a vertex outside the box", map[string]interface{}{"case": c08case{b1, ring}, "vertex": v, "got": sv(o1)})
								break
							}
						}
					}
					c.Count("boxes_with_sides_beyond_every_vertex", 1)
					if len(o1) > 0 {
						c.Nontrivial(h.Mix(hashP(ring), h.HashFloats(b1[:]...)))
					}
				},
			},
			{
				Name: "polygons", Count: h.Fixed(6000, 1500000),
				Run: func(c *h.Ctx, idx uint64, r *h.Rand) {
					snap := 0.0
					if r.Bool() {
						snap = 0.5
					}
					np := r.Range(1, 3)
					var mp orb.MultiPolygon
					var model [][][]P
					for k := 0; k < np; k++ {
						rings := gen.MustPolygonWithHoles(r, r.Range(4, 10), r.Uniform(3, 9), r.Uniform(3, 9), 2.5, 6, snap, r.Intn(4))
						model = append(model, rings)
						var pg orb.Polygon
						for _, rr := range rings {
							pg = append(pg, pToRing(rr))
						}
						mp = append(mp, pg)
					}
					box := c08box(r, 0, 12, r.Bool())
					if r.Bool() {
						// a box sized and placed relative to one ring (often a hole): the ring then
						// sticks out of the box on several sides
						rings := model[r.Intn(len(model))]
						rr := rings[r.Intn(len(rings))]
						x0, y0, x1, y1 := math.Inf(1), math.Inf(1), math.Inf(-1), math.Inf(-1)
						for _, v := range rr {
							x0, y0, x1, y1 = math.Min(x0, v[0]), math.Min(y0, v[1]), math.Max(x1, v[0]), math.Max(y1, v[1])
						}
						cx, cy, ex, ey := (x0+x1)/2, (y0+y1)/2, (x1-x0)/2, (y1-y0)/2
						nb := [4]float64{cx - ex*r.Uniform(0.2, 1.5), cy - ey*r.Uniform(0.2, 1.5), cx + ex*r.Uniform(0.2, 1.5), cy + ey*r.Uniform(0.2, 1.5)}
						if snap > 0 && r.Bool() {
							for i := range nb {
								nb[i] = math.Round(nb[i]*2) / 2
							}
						}
						if nb[2]-nb[0] > 0.2 && nb[3]-nb[1] > 0.2 {
							box = nb
						}
					}
					scale := 14.0
					if r.P(1, 6) {
						// a comb: the outer ring gains many vertices when clipped, holes follow it
						rings, cb := c08comb(r)
						var pg orb.Polygon
						for _, rr := range rings {
							pg = append(pg, pToRing(rr))
						}
						mp, model, box, scale = orb.MultiPolygon{pg}, [][][]P{rings}, cb, 40
						c.Count("comb_polygons", 1)
					}
					b := boundOf(box[0], box[1], box[2], box[3])
					c.Note([]byte(fmt.Sprintf("box=%v mp=%v", box, model)))
					queries := c08queries(r, box, 40)
					var expMP orb.MultiPolygon
					for k, rings := range model {
						got := clip.Polygon(b, clonePoly(mp[k]))
						c.Eval()
						// expected composition from clip.Ring
						var exp orb.Polygon
						if o := clip.Ring(b, pToRing(rings[0])); o != nil {
							exp = orb.Polygon{o}
							for _, hr := range rings[1:] {
								if ho := clip.Ring(b, pToRing(hr)); ho != nil {
									exp = append(exp, ho)
								}
							}
						}
						same := len(got) == len(exp) && (got == nil) == (exp == nil)
						for i := 0; same && i < len(got); i++ {
							same = bitsEqualPts(got[i], exp[i])
						}
						if !same {
							c.Fail("", "clip.Polygon is not 'clipped outer ring plus the non-empty clipped holes'", map[string]interface{}{"box": box, "polygon": rings, "got": sv(got), "expected": sv(exp)})
						}
						if exp != nil {
							expMP = append(expMP, exp)
						}
						// region preserved at polygon level
						gp := polyToP(got)
						for _, q := range queries {
							far := true
							for _, rr := range rings {
								far = far && farFrom(q, rr, 1e-6*scale)
							}
							for _, rr := range gp {
								far = far && farFrom(q, rr, 1e-6*scale)
							}
							if !far {
								continue
							}
							c.Eval()
							if a, bb := inPolyModel(rings, q), inPolyModel(gp, q); a != bb {
								c.Fail("", "a point strictly inside the box changed sides for a polygon with holes", map[string]interface{}{"box": box, "polygon": rings, "point": q, "in_original": a, "in_clipped": bb, "got": sv(got)})
								break
							}
						}
						// generic
						g := clip.Geometry(b, clonePoly(mp[k]))
						c.Eval()
						if (g == nil) != (exp == nil) || typedEmpty(g) {
							c.Fail("", "clip.Geometry(Polygon) nil-ness differs from 'nothing remains'", map[string]interface{}{"box": box, "polygon": rings, "got": sv(g), "typed": sv(exp)})
						}
					}
					gotMP := clip.MultiPolygon(b, cloneMP(mp))
					c.Eval()
					if !refmodel.EqualValues(gotMP, expMP) && !(len(gotMP) == 0 && len(expMP) == 0) {
						c.Fail("", "clip.MultiPolygon is not the list of non-empty clipped members", map[string]interface{}{"box": box, "multipolygon": model, "got": sv(gotMP), "expected": sv(expMP)})
					} else if gotMP != nil && !partsIndependent(gotMP) {
						c.Fail("", "rings of one clip.MultiPolygon result share memory: appending to one ring overwrites another", map[string]interface{}{"box": box, "multipolygon": model, "now": sv(gotMP)})
					}
					g := clip.Geometry(b, cloneMP(mp))
					c.Eval()
					switch {
					case len(expMP) == 0:
						if g != nil {
							c.Fail("", "clip.Geometry(MultiPolygon) not nil although nothing remains", map[string]interface{}{"box": box, "multipolygon": model, "got": sv(g)})
						}
					case len(expMP) == 1:
						if !refmodel.EqualValues(g, expMP[0]) {
							c.Fail("", "clip.Geometry(MultiPolygon) with one remaining member is not that polygon", map[string]interface{}{"box": box, "multipolygon": model, "got": sv(g)})
						}
					default:
						if !refmodel.EqualValues(g, expMP) {
							c.Fail("", "clip.Geometry(MultiPolygon) differs from clip.MultiPolygon", map[string]interface{}{"box": box, "multipolygon": model, "got": sv(g)})
						}
					}
					if len(expMP) > 0 {
						c.Nontrivial(h.Mix(hashP(model[0][0]), h.HashFloats(box[:]...), uint64(np)))
						c.Sample(map[string]interface{}{"box": box, "multipolygon": model, "clipped": sv(gotMP)})
					}
				},
			},
			{
				Name: "collections-and-layers", Count: h.Fixed(4000, 1000000),
				Run: func(c *h.Ctx, idx uint64, r *h.Rand) {
					box := c08box(r, 0, 12, r.Bool())
					b := boundOf(box[0], box[1], box[2], box[3])
					mk := func() orb.Geometry {
						switch r.Intn(8) {
						case 0:
							return orb.Point{r.Uniform(-1, 13), r.Uniform(-1, 13)}
						case 1:
							return orb.MultiPoint(pToLS(gen.GridList(r, r.Range(1, 5), 0, 0.5, 24)))
						case 2:
							return pToLS(gen.GridList(r, r.Range(2, 6), 0, 0.5, 24))
						case 3:
							return orb.MultiLineString{pToLS(gen.GridList(r, r.Range(2, 5), 0, 1, 12)), pToLS(gen.GridList(r, r.Range(2, 5), 0, 1, 12))}
						case 4:
							rr, _ := c08genRing(r)
							return pToRing(rr)
						case 5:
							rings := gen.MustPolygonWithHoles(r, r.Range(4, 8), r.Uniform(3, 9), r.Uniform(3, 9), 2, 5, 0.5, r.Intn(3))
							var pg orb.Polygon
							for _, rr := range rings {
								pg = append(pg, pToRing(rr))
							}
							return pg
						case 6:
							bx := c08box(r, -1, 13, true)
							return boundOf(bx[0], bx[1], bx[2], bx[3])
						default:
							rings := gen.MustPolygonWithHoles(r, 5, r.Uniform(3, 9), r.Uniform(3, 9), 1, 3, 0, 1)
							var pg orb.Polygon
							for _, rr := range rings {
								pg = append(pg, pToRing(rr))
							}
							return orb.MultiPolygon{pg}
						}
					}
					n := r.Range(1, 6)
					if r.P(1, 40) {
						n = r.Range(60, 140) // more members than bits in a machine word
					}
					var coll orb.Collection
					for i := 0; i < n; i++ {
						g := mk()
						if r.P(1, 6) {
							g = orb.Collection{g, mk()}
						}
						coll = append(coll, g)
					}
					c.Note([]byte(fmt.Sprintf("box=%v coll=%v", box, coll)))
					// expected: member-wise generic clip, nil members dropped
					var exp orb.Collection
					for _, m := range coll {
						if g := clip.Geometry(b, orb.Clone(m)); g != nil {
							exp = append(exp, g)
						}
					}
					c.Evals(len(coll))
					got := clip.Collection(b, orb.Clone(coll).(orb.Collection))
					c.Eval()
					if !(len(got) == 0 && len(exp) == 0) && !refmodel.EqualValues(got, exp) {
						c.Fail("", "clip.Collection is not the list of non-nil clipped members", map[string]interface{}{"box": box, "collection": sv(coll), "got": sv(got), "expected": sv(exp)})
					}
					g := clip.Geometry(b, orb.Clone(coll))
					c.Eval()
					if (g == nil) != (len(exp) == 0) || typedEmpty(g) {
						c.Fail("", "clip.Geometry(Collection) nil-ness differs from 'nothing remains'", map[string]interface{}{"box": box, "collection": sv(coll), "got": sv(g)})
					}
					tol := 1e-9 * 14
					walkVertices(g, func(p orb.Point) {
						if !inBoxTol(P{p[0], p[1]}, box, tol) {
							c.Fail("", "generic clip returned a vertex outside the box", map[string]interface{}{"box": box, "collection": sv(coll), "vertex": sv(p), "got": sv(g)})
						}
					})
					for _, m := range exp {
						if typedEmpty(m) {
							c.Fail("", "generic clip returned a typed empty value instead of nil", map[string]interface{}{"box": box, "collection": sv(coll), "member": fmt.Sprintf("%T", m)})
						}
					}
					// bounds: clip.Bound is the intersection; Geometry(bound) nil iff empty
					bx := c08box(r, -1, 13, true)
					bb := boundOf(bx[0], bx[1], bx[2], bx[3])
					ib := clip.Bound(b, bb)
					want := orb.Bound{Min: orb.Point{math.Max(b.Min[0], bb.Min[0]), math.Max(b.Min[1], bb.Min[1])}, Max: orb.Point{math.Min(b.Max[0], bb.Max[0]), math.Min(b.Max[1], bb.Max[1])}}
					c.Eval()
					if ib != want {
						c.Fail("", "clip.Bound is not the intersection box", map[string]interface{}{"a": sv(b), "b": sv(bb), "got": sv(ib)})
					}
					// mvt layer clip: removes exactly the features whose clip is nil
					fc := geojson.NewFeatureCollection()
					for i, m := range coll {
						f := geojson.NewFeature(orb.Clone(m))
						f.ID = float64(i)
						fc.Append(f)
					}
					layer := mvt.NewLayer("l", fc)
					layer.Clip(b)
					c.Eval()
					j := 0
					okLayer := true
					for i, m := range coll {
						eg := clip.Geometry(b, orb.Clone(m))
						if eg == nil {
							continue
						}
						if j >= len(layer.Features) || layer.Features[j].ID != float64(i) || !refmodel.EqualValues(layer.Features[j].Geometry, eg) {
							okLayer = false
							break
						}
						j++
					}
					if !okLayer || j != len(layer.Features) {
						c.Fail("", "mvt Layer.Clip does not keep exactly the features whose clip is non-nil", map[string]interface{}{"box": box, "collection": sv(coll), "kept": len(layer.Features)})
					}
					if len(exp) > 0 {
						c.Nontrivial(h.Mix(h.HashString(sv(coll)), h.HashFloats(box[:]...)))
						c.Sample(map[string]interface{}{"box": box, "collection": sv(coll), "clipped": sv(g)})
					}
				},
			},
		},
	})
}
