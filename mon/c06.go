package mon

import (
	"math"
	"unsafe"

	"github.com/paulmach/orb"
	"github.com/paulmach/orb/clip"

	"verif/internal/exact"
	"verif/internal/gen"
	"verif/internal/h"
	"verif/internal/refmodel"
)

// C06 — Clone is deep, Equal is structural, Bound is the tight box, lattice laws.

// setters returns one setter per vertex of *g; calling it overwrites that vertex in place
// (values of kind Point/Bound are replaced in their holder).
func setters(g *orb.Geometry) []func(orb.Point) {
	var out []func(orb.Point)
	pts := func(ps []orb.Point) {
		for i := range ps {
			i := i
			out = append(out, func(p orb.Point) { ps[i] = p })
		}
	}
	switch x := (*g).(type) {
	case orb.Point:
		out = append(out, func(p orb.Point) { *g = p })
	case orb.MultiPoint:
		pts(x)
	case orb.LineString:
		pts(x)
	case orb.Ring:
		pts(x)
	case orb.MultiLineString:
		for _, l := range x {
			pts(l)
		}
	case orb.Polygon:
		for _, l := range x {
			pts(l)
		}
	case orb.MultiPolygon:
		for _, pg := range x {
			for _, l := range pg {
				pts(l)
			}
		}
	case orb.Collection:
		for i := range x {
			m := x[i]
			i := i
			mp := &m
			for _, s := range setters(mp) {
				s := s
				out = append(out, func(p orb.Point) { s(p); x[i] = *mp })
			}
		}
	case orb.Bound:
		out = append(out, func(p orb.Point) { b := (*g).(orb.Bound); b.Min = p; *g = b })
		out = append(out, func(p orb.Point) { b := (*g).(orb.Bound); b.Max = p; *g = b })
	}
	return out
}

// arrays collects the addresses of all non-empty backing arrays (every slice level).
func arrays(g orb.Geometry, out map[unsafe.Pointer]bool) {
	switch x := g.(type) {
	case orb.MultiPoint:
		if len(x) > 0 {
			out[unsafe.Pointer(&x[0])] = true
		}
	case orb.LineString:
		if len(x) > 0 {
			out[unsafe.Pointer(&x[0])] = true
		}
	case orb.Ring:
		if len(x) > 0 {
			out[unsafe.Pointer(&x[0])] = true
		}
	case orb.MultiLineString:
		if len(x) > 0 {
			out[unsafe.Pointer(&x[0])] = true
		}
		for _, l := range x {
			arrays(l, out)
		}
	case orb.Polygon:
		if len(x) > 0 {
			out[unsafe.Pointer(&x[0])] = true
		}
		for _, l := range x {
			arrays(l, out)
		}
	case orb.MultiPolygon:
		if len(x) > 0 {
			out[unsafe.Pointer(&x[0])] = true
		}
		for _, p := range x {
			arrays(p, out)
		}
	case orb.Collection:
		if len(x) > 0 {
			out[unsafe.Pointer(&x[0])] = true
		}
		for _, m := range x {
			arrays(m, out)
		}
	}
}

func hasNaN(g orb.Geometry) bool {
	nan := false
	refmodel.Walk(g, func(p orb.Point) { nan = nan || p[0] != p[0] || p[1] != p[1] }, nil)
	return nan
}

func properBounds(g orb.Geometry) orb.Geometry {
	switch x := g.(type) {
	case orb.Bound:
		return orb.Bound{Min: orb.Point{math.Min(x.Min[0], x.Max[0]), math.Min(x.Min[1], x.Max[1])}, Max: orb.Point{math.Max(x.Min[0], x.Max[0]), math.Max(x.Min[1], x.Max[1])}}
	case orb.Collection:
		for i := range x {
			x[i] = properBounds(x[i])
		}
	}
	return g
}

// closeSomeRings closes rings (appends the first vertex) so that closed rings occur in every position.
func closeSomeRings(r *h.Rand, g orb.Geometry) orb.Geometry {
	cl := func(rg orb.Ring) orb.Ring {
		if len(rg) >= 2 && r.Bool() {
			last := rg[0]
			if r.P(1, 4) {
				// almost closed: the last vertex is a different point, a few 1e-13 (relative) or one ulp beside the first
				k := r.Intn(2)
				if r.Bool() {
					last[k] = math.Nextafter(last[k], []float64{math.Inf(1), math.Inf(-1)}[r.Intn(2)])
				} else {
					last[k] += last[k] * []float64{3e-13, -3e-13, 1e-15}[r.Intn(3)]
				}
			}
			return append(append(orb.Ring{}, rg...), last)
		}
		return rg
	}
	switch x := g.(type) {
	case orb.Ring:
		return cl(x)
	case orb.Polygon:
		for i := range x {
			x[i] = cl(x[i])
		}
	case orb.MultiPolygon:
		for _, pg := range x {
			for i := range pg {
				pg[i] = cl(pg[i])
			}
		}
	case orb.Collection:
		for i := range x {
			x[i] = closeSomeRings(r, x[i])
		}
	}
	return g
}

// c06variants returns values that differ from g in exactly one aspect (or share memory with it).
func c06variants(r *h.Rand, g orb.Geometry) []orb.Geometry {
	var out []orb.Geometry
	// one coordinate changed: a random vertex, the first vertex, the last vertex
	for k := 0; k < 3; k++ {
		cp := refmodel.Copy(g)
		if ss := setters(&cp); len(ss) > 0 {
			i := r.Intn(len(ss))
			if k == 1 {
				i = 0
			} else if k == 2 {
				i = len(ss) - 1
			}
			ss[i](orb.Point{12345.5, -54321.25})
			out = append(out, cp)
		}
	}
	// one coordinate of one vertex moved to the neighbouring float (the smallest possible difference)
	{
		cp := refmodel.Copy(g)
		var vs []orb.Point
		refmodel.Walk(cp, func(p orb.Point) { vs = append(vs, p) }, nil)
		if ss := setters(&cp); len(ss) > 0 && len(ss) == len(vs) {
			i := r.Intn(len(ss))
			p := vs[i]
			k := r.Intn(2)
			if p[k] == p[k] && !math.IsInf(p[k], 0) {
				p[k] = math.Nextafter(p[k], []float64{math.Inf(1), math.Inf(-1)}[r.Intn(2)])
				ss[i](p)
				out = append(out, cp)
			}
		}
	}
	// one coordinate of one vertex negated (180 <-> -180, 0 <-> -0, a <-> -a)
	{
		cp := refmodel.Copy(g)
		var vs []orb.Point
		refmodel.Walk(cp, func(p orb.Point) { vs = append(vs, p) }, nil)
		if ss := setters(&cp); len(ss) > 0 && len(ss) == len(vs) {
			i := r.Intn(len(ss))
			p := vs[i]
			k := r.Intn(2)
			p[k] = -p[k]
			ss[i](p)
			out = append(out, cp)
		}
	}
	// lengths: prefix view sharing memory, and a longer copy
	switch x := g.(type) {
	case orb.MultiPoint:
		if len(x) > 0 {
			out = append(out, x[:len(x)-1], x[:r.Intn(len(x))+0])
		}
		out = append(out, append(x.Clone(), orb.Point{1, 1}), orb.LineString(x))
	case orb.LineString:
		if len(x) > 0 {
			out = append(out, x[:len(x)-1], x[:r.Intn(len(x))])
		}
		out = append(out, append(x.Clone(), orb.Point{1, 1}), orb.MultiPoint(x), orb.Ring(x))
	case orb.Ring:
		if len(x) > 0 {
			out = append(out, x[:len(x)-1])
		}
		out = append(out, orb.LineString(x), orb.Polygon{x})
	case orb.MultiLineString:
		if len(x) > 0 {
			out = append(out, x[:len(x)-1])
			if len(x[0]) > 0 {
				v := append(orb.MultiLineString{}, x...)
				v[0] = x[0][:len(x[0])-1]
				out = append(out, v)
			}
		}
		var pg orb.Polygon
		for _, l := range x {
			pg = append(pg, orb.Ring(l))
		}
		out = append(out, pg)
	case orb.Polygon:
		if len(x) > 0 {
			out = append(out, x[:len(x)-1], orb.MultiPolygon{x})
			if len(x[len(x)-1]) > 0 {
				v := append(orb.Polygon{}, x...)
				v[len(x)-1] = x[len(x)-1][:len(x[len(x)-1])-1]
				out = append(out, v)
			}
		}
		var mls orb.MultiLineString
		for _, l := range x {
			mls = append(mls, orb.LineString(l))
		}
		out = append(out, mls)
		if len(x) == 1 {
			out = append(out, x[0])
		}
	case orb.MultiPolygon:
		if len(x) > 0 {
			out = append(out, x[:len(x)-1])
		}
	case orb.Collection:
		if len(x) > 0 {
			out = append(out, x[:len(x)-1], x[0])
		}
		out = append(out, orb.Collection{x})
	case orb.Bound:
		out = append(out, x.ToPolygon(), x.ToRing())
	case orb.Point:
		out = append(out, orb.MultiPoint{x})
	}
	out = append(out, orb.Collection{g}, nil)
	return out
}

func c06box(r *h.Rand) orb.Bound {
	switch r.Intn(5) {
	case 0: // a point box
		p := orb.Point{float64(r.Range(-4, 4)), float64(r.Range(-4, 4))}
		return orb.Bound{Min: p, Max: p}
	case 1: // dyadic
		x0, y0 := float64(r.Range(-16, 16))/4, float64(r.Range(-16, 16))/4
		return orb.Bound{Min: orb.Point{x0, y0}, Max: orb.Point{x0 + float64(r.Range(0, 12))/4, y0 + float64(r.Range(0, 12))/4}}
	default:
		x0, y0 := float64(r.Range(-4, 4)), float64(r.Range(-4, 4))
		return orb.Bound{Min: orb.Point{x0, y0}, Max: orb.Point{x0 + float64(r.Range(0, 4)), y0 + float64(r.Range(0, 4))}}
	}
}

func intervalIntersects(a, b orb.Bound) bool {
	return a.Min[0] <= b.Max[0] && b.Min[0] <= a.Max[0] && a.Min[1] <= b.Max[1] && b.Min[1] <= a.Max[1]
}

// c06untidy gives collections the members a program can legitimately hand over besides tidy ones: untyped nil members
// (orb.AllGeometries starts with one; they have no vertices), at the front as well, and two members that are windows of
// different lengths onto one backing array (sub and sub[:k]: different values starting at the same element).
func c06untidy(r *h.Rand, g orb.Geometry, nils, views *int) orb.Geometry {
	col, ok := g.(orb.Collection)
	if !ok {
		if r.P(1, 3) {
			*nils++
			return orb.Collection{nil, g}
		}
		return g
	}
	out := make(orb.Collection, 0, len(col)+3)
	if r.P(1, 3) {
		out = append(out, nil)
		*nils++
	}
	for _, m := range col {
		m = c06untidy(r, m, nils, views)
		out = append(out, m)
		if sub, ok := m.(orb.Collection); ok && len(sub) >= 2 && r.Bool() {
			k := 1 + r.Intn(len(sub)-1)
			if r.Bool() {
				out = append(out, sub[:k])
			} else { // the shorter one first
				out[len(out)-1] = sub[:k]
				out = append(out, orb.Point{1, 1}, sub)
			}
			*views++
		}
		if r.P(1, 6) {
			out = append(out, nil)
			*nils++
		}
	}
	return out
}

func init() {
	optsAll := &gen.GeomOpts{Float: gen.FloatAll, NilSlices: true, Empty: true, EmptyParts: true, RingBound: true, Huge: true}
	optsFin := &gen.GeomOpts{Float: gen.FloatFinite, NilSlices: true, Empty: true, EmptyParts: true, RingBound: true, Huge: true}
	optsOrd := &gen.GeomOpts{Float: gen.FloatOrdinary, NilSlices: true, Empty: true, EmptyParts: true, RingBound: true, Huge: true}

	h.Register(&h.Monitor{
		ID: "C06",
		Rule: "geometries from the full grammar (nine kinds, nil / empty / single-vertex values and members, collections nested to depth 4; coordinates from all float64 bit patterns for Clone/Equal, finite for Bound); variants differing in one coordinate, one length (including prefix views sharing memory), or one nesting level; all kind pairs; integer and dyadic boxes including touching, nested, point and empty boxes; integer rings and lines of every length from 0. " +
			"non-trivial = has at least one vertex; distinct = hash of kind, shape and coordinate bits",
		MinNontrivial: h.Fixed(10000, 500000),
		Assumptions: []string{
			"reflexivity of Equal is only demanded without NaN coordinates (Equal is defined through ==)",
			"Bound values inside generated geometries are proper boxes; the reference treats a Bound as its own box",
			"identity of backing arrays is observed with unsafe.SliceData in the harness only",
		},
		Subs: []h.Sub{
			{
				Name: "clone-equal-bound", Count: h.Fixed(20000, 15000000),
				Run: func(c *h.Ctx, idx uint64, r *h.Rand) {
					o := []*gen.GeomOpts{optsAll, optsFin, optsOrd}[r.Intn(3)]
					g := properBounds(o.Geometry(r, r.Intn(5)))
					if r.P(1, 3) {
						g = closeSomeRings(r, g)
					}
					if r.P(1, 4) {
						var nils, views int
						g = c06untidy(r, g, &nils, &views)
						c.Count("collections_with_untyped_nil_members", int64(nils))
						c.Count("collections_with_a_member_that_is_a_prefix_view_of_another_member", int64(views))
					}
					snap := refmodel.Copy(g)
					d := func() map[string]interface{} {
						return map[string]interface{}{"kind": refmodel.KindName(g), "geometry": sv(snap)}
					}
					// ---- Clone
					cl := orb.Clone(g)
					c.Eval()
					if !refmodel.EqualBits(cl, g) {
						c.Fail("", "Clone is not structurally identical to the original", map[string]interface{}{"case": d(), "clone": sv(cl)})
						return
					}
					nan := hasNaN(g)
					if !nan && !orb.Equal(cl, g) {
						c.Fail("", "Equal(Clone(g), g) is false", d())
					}
					a1, a2 := map[unsafe.Pointer]bool{}, map[unsafe.Pointer]bool{}
					arrays(g, a1)
					arrays(cl, a2)
					for p := range a2 {
						if a1[p] {
							c.Fail("", "Clone shares a backing array with the original", d())
							break
						}
					}
					// mutate the clone vertex by vertex: the original must not change, and vice versa
					sentinel := orb.Point{-7.25e10, 3.5e-10}
					ss := setters(&cl)
					step := 1
					if len(ss) > 64 {
						step = len(ss) / 64
					}
					for i := 0; i < len(ss); i += step {
						ss[i](sentinel)
						if !refmodel.EqualBits(g, snap) {
							c.Fail("", "mutating a vertex of the clone changed the original", map[string]interface{}{"case": d(), "vertex": i})
							break
						}
					}
					cl2 := orb.Clone(g)
					snap2 := refmodel.Copy(cl2)
					gg := g
					so := setters(&gg)
					for i := 0; i < len(so); i += step {
						so[i](sentinel)
						if !refmodel.EqualBits(cl2, snap2) {
							c.Fail("", "mutating a vertex of the original changed the clone", map[string]interface{}{"case": d(), "vertex": i})
							break
						}
					}
					c.Evals(2)
					g = refmodel.Copy(snap) // restore
					// ---- Equal vs the structural comparer
					vars := c06variants(r, g)
					vars = append(vars, g, refmodel.Copy(g), properBounds(o.Geometry(r, 1)), properBounds(o.OfKind(r, gen.KindOf(g), 2)))
					{
						// the same value with every zero coordinate spelled with the other sign (equal coordinates)
						zeros := 0
						fz := refProject(refmodel.Copy(g), func(p orb.Point) orb.Point {
							for k := 0; k < 2; k++ {
								if p[k] == 0 {
									p[k] = -p[k] // +0 <-> -0
									zeros++
								}
							}
							return p
						})
						if zeros > 0 {
							vars = append(vars, fz)
							c.Count("zero_sign_variants", 1)
						}
					}
					for _, v := range vars {
						want := refmodel.EqualValues(g, v)
						got, got2 := orb.Equal(g, v), orb.Equal(v, g)
						c.Evals(2)
						if got != want || got2 != want {
							c.Fail("", "Equal disagrees with 'same kind, nesting, lengths and coordinates' (or is not symmetric)", map[string]interface{}{"a": sv(g), "a_kind": refmodel.KindName(g), "b": sv(v), "b_kind": refmodel.KindName(v), "equal_ab": got, "equal_ba": got2, "want": want})
							break
						}
					}
					// transitivity on a constructed triple (-0 and +0 compare equal)
					if !nan {
						b1 := refmodel.Copy(g)
						if s := setters(&b1); len(s) > 0 {
							var first orb.Point
							found := false
							refmodel.Walk(g, func(p orb.Point) {
								if !found {
									first, found = p, true
								}
							}, nil)
							if first[0] == 0 {
								s[0](orb.Point{math.Copysign(0, -1), first[1]})
							}
						}
						b2 := orb.Clone(b1)
						if orb.Equal(g, b1) && orb.Equal(b1, b2) && !orb.Equal(g, b2) {
							c.Fail("", "Equal is not transitive", map[string]interface{}{"a": sv(g), "b": sv(b1), "c": sv(b2)})
						}
					}
					// ---- Bound (any coordinates that are ordered: infinities included, NaN not)
					if !nan {
						fin := true
						refmodel.Walk(g, func(p orb.Point) { fin = fin && !math.IsInf(p[0], 0) && !math.IsInf(p[1], 0) }, nil)
						if !fin {
							c.Count("bounds_of_values_with_infinite_coordinates", 1)
						}
						{
							want, ok := refmodel.Bound(g)
							got := g.Bound()
							c.Eval()
							if got.IsEmpty() == ok {
								c.Fail("", "Bound().IsEmpty() is not 'there are no vertices'", map[string]interface{}{"case": d(), "bound": sv(got), "has_vertices": ok})
							} else if ok && !(got.Min == want.Min && got.Max == want.Max) {
								c.Fail("", "Bound is not the smallest box containing every vertex", map[string]interface{}{"case": d(), "got": sv(got), "want": sv(want)})
							}
						}
					}
					if refmodel.NumVertices(g) > 0 {
						c.Nontrivial(refmodel.Hash(g))
						c.Sample(map[string]interface{}{"kind": refmodel.KindName(g), "geometry": sv(g)})
					}
				},
			},
			{
				Name: "kind-pairs", Count: h.Fixed(2000, 1000000),
				Run: func(c *h.Ctx, idx uint64, r *h.Rand) {
					// all 10 x 10 kind pairs (nine kinds + nil interface) over a shared pool of points
					o := &gen.GeomOpts{Float: func(r *h.Rand) float64 { return float64(r.Intn(3)) }, NilSlices: true, Empty: true, EmptyParts: true, RingBound: true, MaxLen: 2}
					var vals []orb.Geometry
					for k := 0; k < 9; k++ {
						vals = append(vals, properBounds(o.OfKind(r, k, 1)))
					}
					vals = append(vals, nil)
					for _, a := range vals {
						for _, b := range vals {
							var got bool
							if pv, st := h.Catch(func() { got = orb.Equal(a, b) }); pv != nil {
								c.Fail("", "Equal panicked", map[string]interface{}{"a": sv(a), "a_kind": refmodel.KindName(a), "b": sv(b), "b_kind": refmodel.KindName(b), "panic": sv(pv), "stack": st})
								continue
							}
							c.Eval()
							if want := refmodel.EqualValues(a, b); got != want {
								c.Fail("", "Equal disagrees with the structural comparer on a kind pair", map[string]interface{}{"a": sv(a), "a_kind": refmodel.KindName(a), "b": sv(b), "b_kind": refmodel.KindName(b), "got": got, "want": want})
							}
						}
					}
					c.Nontrivial(c.CaseHash())
					c.Sample(map[string]interface{}{"values": sv(vals)})
				},
			},
			{
				Name: "bound-lattice", Count: h.Fixed(60000, 40000000),
				Run: func(c *h.Ctx, idx uint64, r *h.Rand) {
					a, b, d := c06box(r), c06box(r), c06box(r)
					if r.P(1, 6) { // touching: b sits exactly on one of a's edges
						switch r.Intn(4) {
						case 0:
							b.Min[1], b.Max[1] = a.Max[1], a.Max[1]+float64(r.Range(0, 3))
						case 1:
							b.Max[1], b.Min[1] = a.Min[1], a.Min[1]-float64(r.Range(0, 3))
						case 2:
							b.Min[0], b.Max[0] = a.Max[0], a.Max[0]+float64(r.Range(0, 3))
						default:
							b.Max[0], b.Min[0] = a.Min[0], a.Min[0]-float64(r.Range(0, 3))
						}
					}
					empty := orb.MultiPoint{}.Bound()
					f := func(msg string, extra interface{}) {
						c.Fail("", msg, map[string]interface{}{"a": sv(a), "b": sv(b), "c": sv(d), "detail": extra})
					}
					u := a.Union(b)
					c.Evals(8)
					if u != b.Union(a) {
						f("Bound.Union is not commutative", nil)
					}
					if a.Union(b).Union(d) != a.Union(b.Union(d)) {
						f("Bound.Union is not associative", nil)
					}
					if a.Union(a) != a {
						f("Bound.Union is not idempotent", nil)
					}
					want := orb.Bound{Min: orb.Point{math.Min(a.Min[0], b.Min[0]), math.Min(a.Min[1], b.Min[1])}, Max: orb.Point{math.Max(a.Max[0], b.Max[0]), math.Max(a.Max[1], b.Max[1])}}
					if u != want {
						f("Bound.Union is not the smallest box containing both", map[string]interface{}{"got": sv(u), "want": sv(want)})
					}
					if a.Union(empty) != a || empty.Union(a) != a || !empty.Union(empty).IsEmpty() {
						f("union with an empty box is not the identity", map[string]interface{}{"a_u_e": sv(a.Union(empty)), "e_u_a": sv(empty.Union(a))})
					}
					p := orb.Point{float64(r.Range(-20, 20)) / 4, float64(r.Range(-20, 20)) / 4}
					if r.P(1, 3) {
						p = []orb.Point{a.Min, a.Max, a.LeftTop(), a.RightBottom(), a.Center()}[r.Intn(5)]
					}
					ext := a.Extend(p)
					if ext != a.Union(orb.Bound{Min: p, Max: p}) {
						f("Extend(p) is not the union with the point's box", map[string]interface{}{"p": sv(p), "extend": sv(ext)})
					}
					// extending the box of a value without vertices: the result holds the point, is not empty, and extending again
					// changes nothing (and it is exactly the point's box: on the unchanged tree that fails for points outside [-1,1]^2, known finding C06/extend-empty-box)
					for _, e := range []orb.Bound{empty, orb.LineString{}.Bound(), orb.Polygon{}.Bound()} {
						x := e.Extend(p)
						c.Eval()
						if !(x.Min[0] <= p[0] && p[0] <= x.Max[0] && x.Min[1] <= p[1] && p[1] <= x.Max[1]) || x.IsEmpty() || !x.Contains(p) || x.Extend(p) != x {
							f("extending an empty box by a point does not give a non-empty box that contains the point (or extending twice differs)", map[string]interface{}{"empty_box": sv(e), "p": sv(p), "extend": sv(x), "extend_twice": sv(x.Extend(p))})
						}
						// Extend(p) is the union with the point's box, and the empty box is the identity of Union: {p, p}
						if pb := (orb.Bound{Min: p, Max: p}); x != pb {
							leak := orb.Bound{Min: orb.Point{math.Min(e.Min[0], p[0]), math.Min(e.Min[1], p[1])}, Max: orb.Point{math.Max(e.Max[0], p[0]), math.Max(e.Max[1], p[1])}}
							key := ""
							if e.IsEmpty() && x == leak && x.Contains(p) && e.Union(pb) == pb {
								key = "C06/extend-empty-box" // the empty sentinel (1,1)/(-1,-1) leaks into the result; Union handles it (c124612), Extend does not
							}
							c.Fail(key, "extending an empty box by a point is not the point's box (the union with the point's box)", map[string]interface{}{"empty_box": sv(e), "p": sv(p), "extend": sv(x), "union_with_the_points_box": sv(e.Union(pb))})
						}
					}
					inside := a.Min[0] <= p[0] && p[0] <= a.Max[0] && a.Min[1] <= p[1] && p[1] <= a.Max[1]
					if a.Contains(p) != inside || a.Contains(p) != (ext == a) {
						f("Contains(p) is not 'p inside the closed box' / 'Extend(p) leaves the box unchanged'", map[string]interface{}{"p": sv(p), "contains": a.Contains(p)})
					}
					ia, ib := a.Intersects(b), b.Intersects(a)
					if ia != ib || ia != intervalIntersects(a, b) {
						f("Intersects is not symmetric or differs from the closed interval test", map[string]interface{}{"a_b": ia, "b_a": ib, "want": intervalIntersects(a, b)})
					}
					if !a.Intersects(a) || !u.Intersects(a) || !u.Intersects(b) {
						f("a box does not intersect itself / its union", nil)
					}
					if !u.Contains(a.Min) || !u.Contains(a.Max) || !u.Contains(b.Min) || !u.Contains(b.Max) {
						f("the union does not contain both arguments", nil)
					}
					// absorption with clip.Bound as the meet
					if m := clip.Bound(a, b); a.Union(m) != a {
						f("absorption a u (a n b) = a fails", map[string]interface{}{"meet": sv(m), "got": sv(a.Union(m))})
					}
					c.Nontrivial(h.Mix(h.HashString(sv(a)), h.HashString(sv(b)), h.HashString(sv(d))))
					c.Sample(map[string]interface{}{"a": sv(a), "b": sv(b), "c": sv(d), "p": sv(p)})
				},
			},
			{
				Name: "reverse-orientation", Count: h.Fixed(20000, 15000000),
				Run: func(c *h.Ctx, idx uint64, r *h.Rand) {
					n := int(idx % 14)
					if idx%5 == 0 {
						n = r.Range(0, 60)
					}
					mag := []int{3, 1000, 1 << 20}[r.Intn(3)]
					ls := make(orb.LineString, n)
					for i := range ls {
						ls[i] = orb.Point{float64(r.Range(-mag, mag)), float64(r.Range(-mag, mag))}
					}
					if idx%7 == 3 && n >= 3 {
						// tiny rings far from the origin: every vertex within a few dozen float64 steps of a decimal lon/lat
						// point (differences from the first vertex are then exact, so the sign of the area is well defined)
						base := orb.Point{[]float64{13.405, -122.4194, 0.1, 1e7 + 0.3}[r.Intn(4)], []float64{52.52, 37.7749, -0.7, 5e6 + 0.1}[r.Intn(4)]}
						for i := range ls {
							p := base
							for k := 0; k < 2; k++ {
								for s := r.Range(-40, 40); s != 0; {
									if s > 0 {
										p[k] = math.Nextafter(p[k], math.Inf(1))
										s--
									} else {
										p[k] = math.Nextafter(p[k], math.Inf(-1))
										s++
									}
								}
							}
							ls[i] = p
						}
						c.Count("rings_of_a_few_dozen_ulps", 1)
					}
					snap := cloneLS(ls)
					var pv interface{}
					pv, st := h.Catch(func() { ls.Reverse() })
					if pv != nil {
						c.Fail("", "LineString.Reverse panicked", map[string]interface{}{"line": sv(snap), "panic": sv(pv), "stack": st})
						return
					}
					for i := range ls {
						if ls[i] != snap[n-1-i] {
							c.Fail("", "LineString.Reverse does not reverse", map[string]interface{}{"line": sv(snap), "got": sv(ls)})
							break
						}
					}
					ls.Reverse()
					c.Evals(2)
					if !bitsEqualPts(ls, snap) {
						c.Fail("", "reversing a line twice is not the identity", map[string]interface{}{"line": sv(snap), "got": sv(ls)})
					}
					// rings: closed integer ring, orientation negated by reversal
					ring := orb.Ring(cloneLS(snap))
					if n >= 3 && r.Bool() {
						ring = append(ring, ring[0])
					}
					var o1, o2 orb.Orientation
					pv, st = h.Catch(func() {
						o1 = ring.Orientation()
						rv := ring.Clone()
						rv.Reverse()
						o2 = rv.Orientation()
					})
					c.Evals(2)
					if pv != nil {
						c.Fail("", "Ring.Orientation / Reverse panicked", map[string]interface{}{"ring": sv(ring), "panic": sv(pv), "stack": st})
						return
					}
					if o2 != -o1 {
						c.Fail("", "reversing a ring does not negate its orientation", map[string]interface{}{"ring": sv(ring), "orientation": int(o1), "reversed": int(o2)})
					}
					// sign against the exact shoelace
					if a := exactSign(ring); (a > 0 && o1 != orb.CCW) || (a < 0 && o1 != orb.CW) || (a == 0 && o1 != 0) {
						c.Fail("", "Ring.Orientation differs from the sign of the exact shoelace area", map[string]interface{}{"ring": sv(ring), "orientation": int(o1), "exact_sign": a})
					}
					if n > 0 {
						c.Nontrivial(hashPts(snap))
						c.Sample(map[string]interface{}{"line": sv(snap)})
					}
				},
			},
		},
	})
}

// exactSign is the sign of the integer shoelace sum (coordinates are integers below 2^21, so int64 is exact).
func exactSign(r orb.Ring) int {
	if len(r) == 0 {
		return 0
	}
	return exact.Area2(lsToP(r)).Sign() // exact rational shoelace, any float64 coordinates
}
