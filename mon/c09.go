package mon

import (
	"math"

	"github.com/paulmach/orb"
	"github.com/paulmach/orb/planar"

	"verif/internal/exact"
	"verif/internal/gen"
	"verif/internal/h"
)

// C09 — point in ring / polygon answers match exact even-odd geometry.

type c09case struct {
	Ring  []P    `json:"ring"`
	Point P      `json:"point"`
	Note  string `json:"spelling,omitempty"`
}

// c09spellings returns the ring itself, every rotation, the reversal, and for each
// of them the closed and the unclosed spelling.
func c09spellings(open []P, all bool) [][]P {
	n := len(open)
	var out [][]P
	add := func(v []P) {
		out = append(out, v)
		cl := append(append([]P{}, v...), v[0])
		out = append(out, cl)
	}
	rots := n
	if !all {
		rots = 1
	}
	for k := 0; k < rots; k++ {
		v := make([]P, n)
		for i := range v {
			v[i] = open[(i+k)%n]
		}
		add(v)
	}
	rev := make([]P, n)
	for i := range rev {
		rev[i] = open[n-1-i]
	}
	add(rev)
	return out
}

func c09ring(c *h.Ctx, open []P, pts []P) {
	sp := c09spellings(open, true)
	for _, q := range pts {
		in, on := exact.Locate(open, q)
		want := in || on
		for _, v := range sp {
			got := planar.RingContains(pToRing(v), orb.Point{q[0], q[1]})
			c.Eval()
			if got != want {
				c.Fail("", "RingContains disagrees with the exact even-odd/boundary answer", map[string]interface{}{
					"case": c09case{v, q, "one of: rotations, reversal, closed/unclosed"}, "got": got, "exact_inside": in, "exact_on_boundary": on})
				break
			}
		}
		if on {
			c.Count("boundary_queries", 1)
		} else if in {
			c.Count("inside_queries", 1)
		} else {
			c.Count("outside_queries", 1)
		}
	}
}

var c09lattice []P

func c09polyWant(rings [][]P, q P) bool {
	in, on := exact.Locate(rings[0], q)
	if !(in || on) {
		return false
	}
	for _, hr := range rings[1:] {
		in, on := exact.Locate(hr, q)
		if in || on {
			return false
		}
	}
	return true
}

func init() {
	for y := -1; y <= 7; y++ {
		for x := -1; x <= 7; x++ {
			c09lattice = append(c09lattice, P{float64(x) / 2, float64(y) / 2})
		}
	}
	g4 := func(k uint64) P { return P{float64(k % 4), float64(k / 4)} }

	randRing := func(r *h.Rand, n int, gridN int, cx, cy float64) []P {
		ring := make([]P, 0, n)
		for i := 0; i < n; i++ {
			p := P{cx + float64(r.Intn(gridN)), cy + float64(r.Intn(gridN))}
			if i > 0 && r.P(1, 6) {
				p = ring[r.Intn(len(ring))] // repeated vertex
			}
			if i > 0 && r.P(1, 4) { // axis-parallel or collinear continuation
				prev := ring[len(ring)-1]
				if r.Bool() {
					p[0] = prev[0]
				} else {
					p[1] = prev[1]
				}
			}
			ring = append(ring, p)
		}
		return ring
	}

	h.Register(&h.Monitor{
		ID: "C09",
		Rule: "every 3- and 4-vertex ring on the 4x4 integer grid, the 4-vertex rings also translated by (-2,-2) so that negative coordinates occur (thorough: also every 5-vertex ring) against all 81 points of the half-step lattice [-0.5,3.5]^2, each ring in every rotation, reversed, closed and unclosed; plus random rings of 3..12 vertices on a 16x16 grid (repeated, collinear, axis-parallel edges) with quarter-step queries, polygons with 1-3 holes and multi-polygons. " +
			"non-trivial = ring has non-zero area (exact shoelace); distinct = hash of the vertex list",
		MinNontrivial: h.Fixed(20000, 200000),
		Assumptions:   []string{"oracle: exact crossing number with explicit on-segment test (exact orientation predicate on dyadic coordinates)"},
		Subs: []h.Sub{
			{
				Name: "grid-3", Count: h.Fixed(4096, 4096), Exhaustive: h.Always,
				Run: func(c *h.Ctx, idx uint64, r *h.Rand) {
					ring := []P{g4(idx / 256), g4((idx / 16) % 16), g4(idx % 16)}
					c09ring(c, ring, c09lattice)
					if exact.Area2(ring).Sign() != 0 {
						c.Nontrivial(c.CaseHash())
						c.Sample(map[string]interface{}{"ring": ring, "queries": "81 lattice points", "spellings": "all rotations, reversal, closed and unclosed"})
					}
				},
			},
			{
				Name: "grid-4", Count: h.Fixed(65536, 65536), Exhaustive: h.Always,
				Run: func(c *h.Ctx, idx uint64, r *h.Rand) {
					ring := []P{g4(idx / 4096), g4((idx / 256) % 16), g4((idx / 16) % 16), g4(idx % 16)}
					c09ring(c, ring, c09lattice)
					if exact.Area2(ring).Sign() != 0 {
						c.Nontrivial(c.CaseHash())
						c.Sample(map[string]interface{}{"ring": ring, "queries": "81 lattice points", "spellings": "all rotations, reversal, closed and unclosed"})
					}
				},
			},
			{
				// the same space translated by (-2,-2): negative, zero and positive coordinates
				Name: "grid-4-shifted-negative", Count: h.Fixed(65536, 65536), Exhaustive: h.Always,
				Run: func(c *h.Ctx, idx uint64, r *h.Rand) {
					sh := func(p P) P { return P{p[0] - 2, p[1] - 2} }
					ring := []P{sh(g4(idx / 4096)), sh(g4((idx / 256) % 16)), sh(g4((idx / 16) % 16)), sh(g4(idx % 16))}
					lat := make([]P, len(c09lattice))
					for i, q := range c09lattice {
						lat[i] = sh(q)
					}
					c09ring(c, ring, lat)
					if exact.Area2(ring).Sign() != 0 {
						c.Nontrivial(c.CaseHash())
						c.Sample(map[string]interface{}{"ring": ring, "queries": "81 lattice points of [-2.5,1.5]^2"})
					}
				},
			},
			{
				Name: "grid-5", Count: h.Fixed(0, 1048576), Exhaustive: h.ThoroughOnly,
				Run: func(c *h.Ctx, idx uint64, r *h.Rand) {
					ring := []P{g4(idx / 65536), g4((idx / 4096) % 16), g4((idx / 256) % 16), g4((idx / 16) % 16), g4(idx % 16)}
					c09ring(c, ring, c09lattice)
					if exact.Area2(ring).Sign() != 0 {
						c.Nontrivial(c.CaseHash())
						c.Sample(map[string]interface{}{"ring": ring, "queries": "81 lattice points"})
					}
				},
			},
			{
				Name: "random-rings", Count: h.Fixed(20000, 4000000),
				Run: func(c *h.Ctx, idx uint64, r *h.Rand) {
					n := r.Range(3, 12)
					ox, oy := float64(r.Range(-16, 0)), float64(r.Range(-16, 0))
					if r.Bool() {
						ox, oy = 0, 0
					}
					ring := randRing(r, n, 16, ox, oy)
					seam := r.P(1, 8)
					if seam {
						// almost closed: a last vertex 2^-31 (or 2^-20) beside the first one - a real, very short closing edge.
						// (All coordinates stay dyadic with few enough bits that the library's cross products are exact in
						// float64: that is the domain the property names. 2^-31 against quarter-step queries needs 43 bits.)
						e := math.Ldexp(1, -[]int{31, 26, 20}[r.Intn(3)])
						ring = append(ring, P{ring[0][0] + e*float64(r.Range(-1, 1)), ring[0][1] + e*float64(r.Range(-1, 1))})
						n = len(ring)
					}
					var pts []P
					for i := 0; i < 40; i++ {
						pts = append(pts, P{ox + float64(r.Range(-4, 68))/4, oy + float64(r.Range(-4, 68))/4})
					}
					// a hair beside the boundary (2^-30 and 2^-45 of a unit): strictly inside or strictly outside, never "on";
					// and the column and row through the first vertex (where the seam of the ring is)
					for i := 0; i < 10; i++ {
						a := ring[r.Intn(len(ring))]
						b := ring[r.Intn(len(ring))]
						m := P{(a[0] + b[0]) / 2, (a[1] + b[1]) / 2}
						e := math.Ldexp(1, -[]int{30, 24}[r.Intn(2)])
						if !seam { // (2^-30 against integer edges: 40 bits; not combined with the 2^-31 seam vertex)
							pts = append(pts, P{m[0] + e*float64(r.Range(-1, 1)), m[1] + e*float64(r.Range(-1, 1))})
						}
						pts = append(pts, P{ring[0][0], oy + float64(r.Range(-4, 68))/4}, P{ox + float64(r.Range(-4, 68))/4, ring[0][1]})
					}
					// queries on vertices and edge midpoints too
					for i := range ring {
						pts = append(pts, ring[i])
						j := (i + 1) % len(ring)
						pts = append(pts, P{(ring[i][0] + ring[j][0]) / 2, (ring[i][1] + ring[j][1]) / 2})
					}
					c09ring(c, ring, pts)
					if exact.Area2(ring).Sign() != 0 {
						c.Nontrivial(hashP(ring))
						c.Sample(map[string]interface{}{"ring": ring, "queries": len(pts)})
					}
				},
			},
			{
				// rings with hundreds of vertices (size-dependent code paths); a few rotations instead of all
				Name: "many-vertices", Count: h.Fixed(150, 15000), BudgetSec: 60,
				Run: func(c *h.Ctx, idx uint64, r *h.Rand) {
					n := c10sizes[r.Intn(len(c10sizes))]
					if n > 1100 {
						n = r.Range(60, 1100)
					}
					ox, oy := float64(r.Range(-64, 0)), float64(r.Range(-64, 0))
					var ring []P
					if r.Bool() {
						ring = randRing(r, n, 64, ox, oy)
					} else {
						// star-shaped around the middle, half-step lattice
						ring = make([]P, n)
						for i := range ring {
							a := 2 * math.Pi * (float64(i) + r.Uniform(0.1, 0.9)) / float64(n)
							rad := r.Uniform(8, 30)
							ring[i] = P{ox + 32 + math.Round(2*rad*math.Cos(a))/2, oy + 32 + math.Round(2*rad*math.Sin(a))/2}
						}
					}
					var sp [][]P
					add := func(v []P) { sp = append(sp, v, append(append([]P{}, v...), v[0])) }
					add(ring)
					for t := 0; t < 3; t++ {
						k := 1 + r.Intn(n-1)
						add(append(append([]P{}, ring[k:]...), ring[:k]...))
					}
					add(gen.Reversed(ring))
					var pts []P
					for i := 0; i < 30; i++ {
						pts = append(pts, P{ox + float64(r.Range(-8, 264))/4, oy + float64(r.Range(-8, 264))/4})
					}
					for i := 0; i < 10; i++ {
						a := r.Intn(n)
						b := (a + 1) % n
						pts = append(pts, ring[a], P{(ring[a][0] + ring[b][0]) / 2, (ring[a][1] + ring[b][1]) / 2})
					}
					for _, q := range pts {
						in, on := exact.Locate(ring, q)
						for si, v := range sp {
							got := planar.RingContains(pToRing(v), orb.Point{q[0], q[1]})
							c.Eval()
							if got != (in || on) {
								c.Fail("", "RingContains on a ring of many vertices disagrees with the exact even-odd/boundary answer", map[string]interface{}{"vertices": n, "spelling": si, "ring_hash": hashP(ring), "first": ring[:4], "point": q, "got": got, "exact_inside": in, "exact_on_boundary": on})
								break
							}
						}
						if got := planar.PolygonContains(orb.Polygon{pToRing(ring)}, orb.Point{q[0], q[1]}); got != (in || on) {
							c.Fail("", "PolygonContains on a one-ring polygon of many vertices disagrees with the exact answer", map[string]interface{}{"vertices": n, "ring_hash": hashP(ring), "point": q, "got": got})
						}
						switch {
						case on:
							c.Count("boundary_queries", 1)
						case in:
							c.Count("inside_queries", 1)
						default:
							c.Count("outside_queries", 1)
						}
					}
					c.Max("vertices in one ring", float64(n), nil)
					if exact.Area2(ring).Sign() != 0 {
						c.Nontrivial(hashP(ring))
						c.Sample(map[string]interface{}{"vertices": n, "queries": len(pts)})
					}
				},
			},
			{
				Name: "polygons", Count: h.Fixed(10000, 2000000),
				Run: func(c *h.Ctx, idx uint64, r *h.Rand) {
					// 1..3 polygons, each an outer ring with 0..3 "holes" (arbitrary rings; the
					// statement defines polygon containment from ring containment alone)
					np := r.Range(1, 3)
					var mp orb.MultiPolygon
					var model [][][]P
					pox, poy := 0.0, 0.0
					if r.Bool() {
						pox, poy = float64(r.Range(-20, -4)), float64(r.Range(-20, -4))
					}
					for k := 0; k < np; k++ {
						var poly orb.Polygon
						var rings [][]P
						outer := randRing(r, r.Range(3, 8), 12, float64(r.Intn(6))+pox, float64(r.Intn(6))+poy)
						rings = append(rings, outer)
						for hcount := r.Intn(4); hcount > 0; hcount-- {
							rings = append(rings, randRing(r, r.Range(3, 6), 6, float64(r.Intn(10))+pox, float64(r.Intn(10))+poy))
							if r.P(1, 6) {
								// a hole with the very coordinates of the outer ring or of another hole (as it is, started elsewhere,
								// or the other way round): related members of one argument, not independently drawn ones
								src := rings[r.Intn(len(rings)-1)]
								cp := append([]P{}, src...)
								switch r.Intn(4) {
								case 0:
									k := r.Intn(len(cp))
									cp = append(cp[k:], cp[:k]...)
								case 1:
									for i, j := 0, len(cp)-1; i < j; i, j = i+1, j-1 {
										cp[i], cp[j] = cp[j], cp[i]
									}
								}
								rings[len(rings)-1] = cp
								c.Count("holes_with_the_coordinates_of_another_ring_of_the_polygon", 1)
							}
						}
						closeAll := r.Intn(3) // 0: each ring as it comes, 1: all closed, 2: none
						for _, rr := range rings {
							v := rr
							if closeAll == 1 || closeAll == 0 && r.Bool() {
								v = append(append([]P{}, rr...), rr[0])
							}
							poly = append(poly, pToRing(v))
						}
						mp = append(mp, poly)
						model = append(model, rings)
					}
					for i := 0; i < 60; i++ {
						q := P{pox + float64(r.Range(-4, 76))/4, poy + float64(r.Range(-4, 76))/4}
						if i%3 == 0 { // a vertex of some ring
							rs := model[r.Intn(len(model))]
							rr := rs[r.Intn(len(rs))]
							q = rr[r.Intn(len(rr))]
						}
						wantAny := false
						for k := range model {
							want := c09polyWant(model[k], q)
							got := planar.PolygonContains(mp[k], orb.Point{q[0], q[1]})
							c.Eval()
							if got != want {
								c.Fail("", "PolygonContains differs from 'outer contains and no hole contains'", map[string]interface{}{"polygon": model[k], "point": q, "got": got, "want": want})
							}
							wantAny = wantAny || want
						}
						got := planar.MultiPolygonContains(mp, orb.Point{q[0], q[1]})
						c.Eval()
						if got != wantAny {
							c.Fail("", "MultiPolygonContains differs from 'any member contains'", map[string]interface{}{"multipolygon": model, "point": q, "got": got, "want": wantAny})
						}
					}
					c.Nontrivial(h.Mix(hashP(model[0][0]), uint64(len(model)), uint64(len(model[0]))))
					c.Sample(map[string]interface{}{"multipolygon": model, "queries": 60})
				},
			},
		},
	})
}
