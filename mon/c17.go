package mon

import (
	"math"

	"github.com/paulmach/orb"
	"github.com/paulmach/orb/geo"
	"github.com/paulmach/orb/planar"
	"github.com/paulmach/orb/resample"

	"verif/internal/exact"
	"verif/internal/h"
)

// C17 — resampling returns the requested number of evenly spaced on-line points.
// Oracle: piecewise-linear arclength parametrisation with the per-segment lengths
// reported by the caller's DistanceFunc.

type c17case struct {
	Line string  `json:"line"`
	DF   string  `json:"distance_func"`
	N    int     `json:"n,omitempty"`
	D    float64 `json:"d,omitempty"`
}

func c17total(ls orb.LineString, df orb.DistanceFunc) (float64, []float64) {
	total := 0.0
	var d []float64
	for i := 0; i+1 < len(ls); i++ {
		d = append(d, df(ls[i], ls[i+1]))
		total += d[i]
	}
	return total, d
}

func allSame(ls orb.LineString) bool {
	for _, p := range ls {
		if p != ls[0] {
			return false
		}
	}
	return true
}

// c17judge checks out against the arclength oracle for a line of positive length and n >= 1.
func c17judge(c *h.Ctx, cs c17case, in, out orb.LineString, df orb.DistanceFunc, n int) {
	fail := func(msg string, extra interface{}) {
		c.Fail("", msg, map[string]interface{}{"case": cs, "output": sv(out), "detail": extra})
	}
	if len(out) != n {
		fail("wrong number of points", map[string]interface{}{"want": n, "got": len(out)})
		return
	}
	if out[0] != in[0] {
		fail("first point is not the line's start", nil)
		return
	}
	if n == 1 {
		return
	}
	if out[n-1] != in[len(in)-1] {
		fail("last point is not the line's end", nil)
		return
	}
	total, d := c17total(in, df)
	b := in.Bound()
	scale := math.Max(math.Max(math.Abs(b.Min[0]), math.Abs(b.Max[0])), math.Max(math.Abs(b.Min[1]), math.Abs(b.Max[1]))) + math.Hypot(b.Max[0]-b.Min[0], b.Max[1]-b.Min[1])
	tol := 1e-9 * scale
	inP := lsToP(in)
	// cumulative measured length at every vertex
	cum := make([]float64, len(in))
	for i := range d {
		cum[i+1] = cum[i] + d[i]
	}
	for k := 1; k < n-1; k++ {
		s := total * float64(k) / float64(n-1)
		got := P{out[k][0], out[k][1]}
		if dd := exact.DistToPolyline(got, inP, false); !(dd <= tol) {
			fail("resampled point is not on the original line", map[string]interface{}{"k": k, "point": got, "distance": dd})
			return
		}
		// the point is at the right place if, on some segment it lies on, its position along the line - the segment's
		// start plus the fraction of the segment's measured length - is the k-th of N-1 equal parts of the total. (On
		// which segment, and where on a segment that measures next to nothing, is not prescribed: a segment from 180 to
		// -180 on one parallel measures 1e-9 m under haversine, every point of it is at the same place along the line.)
		ok := false
		best := math.Inf(1)
		var bestWant P
		for i := range d {
			a, b := inP[i], inP[i+1]
			ex, ey := b[0]-a[0], b[1]-a[1]
			l2 := ex*ex + ey*ey
			f := 0.0
			if l2 > 0 {
				f = ((got[0]-a[0])*ex + (got[1]-a[1])*ey) / l2
				f = math.Max(0, math.Min(1, f))
			}
			if math.Hypot(got[0]-(a[0]+f*ex), got[1]-(a[1]+f*ey)) > 2*tol {
				continue
			}
			slack := 1e-9 * total
			if l2 > 0 {
				slack += 4 * d[i] * tol / math.Sqrt(l2)
			}
			if dev := math.Abs(cum[i] + f*d[i] - s); dev <= slack {
				ok = true
				break
			} else if dev < best && d[i] > 0 {
				best = dev
				fw := math.Max(0, math.Min(1, (s-cum[i])/d[i]))
				bestWant = P{a[0] + fw*ex, a[1] + fw*ey}
			}
		}
		if !ok {
			fail("k-th point is not at k/(N-1) of the length along the line", map[string]interface{}{"k": k, "got": got, "length_along_the_line_wanted": s, "off_by_at_least": best, "a_point_at_that_length": bestWant, "tol": tol})
			return
		}
	}
}

// a long-lived buffer: half of the calls hand the library the same backing array with new contents
// (callers edit and reuse slices; nothing may be remembered about an earlier call's slice)
var c17ret retained

var c17buf = make(orb.LineString, 64)

var c17argFresh bool

func c17arg(r *h.Rand, in orb.LineString) orb.LineString {
	if in != nil && len(in) <= len(c17buf) && r.Bool() {
		copy(c17buf, in)
		c17argFresh = false
		if r.Bool() {
			// spare capacity behind the line, holding unrelated points (a window into a larger buffer)
			for i := len(in); i < len(c17buf); i++ {
				c17buf[i] = orb.Point{-777 - float64(i), 555 + float64(i)}
			}
			return c17buf[:len(in)]
		}
		return c17buf[:len(in):len(in)]
	}
	c17argFresh = true
	return cloneLS(in)
}

func init() {
	dfs := []struct {
		name string
		f    orb.DistanceFunc
		geo  bool
	}{{"planar.Distance", planar.Distance, false}, {"geo.Distance", geo.Distance, true}, {"geo.DistanceHaversine", geo.DistanceHaversine, true}}

	genLine := func(r *h.Rand, geoC bool) orb.LineString {
		n := r.Range(0, 12)
		if r.P(1, 8) {
			n = r.Range(12, 60)
		}
		if r.P(1, 50) {
			// many segments (sizes around powers of two)
			n = []int{127, 128, 129, 130, 131, 255, 256, 257, 258, 511, 513, 1025}[r.Intn(12)]
		}
		integer := r.Bool()
		ls := make(orb.LineString, 0, n)
		for i := 0; i < n; i++ {
			var p orb.Point
			if geoC {
				p = orb.Point{r.Uniform(-170, 170), r.Uniform(-80, 80)}
				if integer {
					p = orb.Point{float64(r.Range(-170, 170)), float64(r.Range(-80, 80))}
				}
				if i > 0 && r.Bool() { // short hops
					p = orb.Point{ls[i-1][0] + r.Uniform(-0.5, 0.5), ls[i-1][1] + r.Uniform(-0.5, 0.5)}
				}
			} else {
				p = orb.Point{r.Uniform(-100, 100), r.Uniform(-100, 100)}
				if integer {
					p = orb.Point{float64(r.Range(-20, 20)), float64(r.Range(-20, 20))}
				}
			}
			if geoC && r.P(1, 12) {
				p[0] = []float64{-180, 180}[r.Intn(2)] // on the antimeridian, either spelling
				if i > 0 && r.Bool() {
					p[1] = ls[i-1][1]
				}
			}
			if i > 0 && r.P(1, 5) {
				p = ls[i-1] // zero-length segment
			}
			if i > 0 && integer && r.P(1, 4) { // axis-parallel integer step, forwards or back over itself: integer segment lengths
				p = orb.Point{ls[i-1][0] + float64(r.Range(-6, 12)), ls[i-1][1]}
			}
			if i > 1 && r.P(1, 10) { // exactly collinear with the previous segment, beyond it, on it, or back past its start
				t := []float64{2, 0.5, -1, 1.5, -0.5}[r.Intn(5)]
				q := orb.Point{ls[i-2][0] + t*(ls[i-1][0]-ls[i-2][0]), ls[i-2][1] + t*(ls[i-1][1]-ls[i-2][1])}
				if !geoC || (math.Abs(q[0]) <= 180 && math.Abs(q[1]) <= 85) { // (great-circle functions need a longitude and a latitude)
					p = q
				}
			}
			ls = append(ls, p)
		}
		if n >= 2 && r.P(1, 12) {
			for i := range ls {
				ls[i] = ls[0] // all coincident
			}
		}
		return ls
	}

	h.Register(&h.Monitor{
		ID: "C17",
		Rule: "random lines of 0..60 and occasionally 127..1025 vertices (nil, empty, single vertex, repeated vertices, zero-length segments, all-coincident, integer axis-parallel segments with integer lengths) resampled to N in {<=0, 1, 2, 3.., len-1, len, len+1, up to 1000} and to intervals d in {<=0, total/k exactly, total/k*(1+-ulp), > total, random}, with planar, equirectangular and haversine distance functions; out-and-back great-circle lines turning on the antimeridian (segments measuring a few ulps of the length before them), intervals asking for more than a million points, lines that are evenly spaced to within 1e-6 of a step. " +
			"non-trivial = line of positive length and N >= 3 (interior points are judged against the arclength oracle); distinct = hash of (line, N or d, distance function)",
		MinNontrivial: h.Fixed(10000, 1000000),
		Assumptions: []string{
			"'distance along the line' is the per-segment distance reported by the caller's DistanceFunc; positions compared within 1e-9*(|coords|+extent)",
			"ToInterval's count is floor(total/d)+1 with total summed in vertex order and the same float division the library performs",
		},
		Subs: []h.Sub{
			{
				Name: "resample-and-interval", Count: h.Fixed(40000, 40000000),
				Run: func(c *h.Ctx, idx uint64, r *h.Rand) {
					dfi := dfs[r.Intn(len(dfs))]
					in := genLine(r, dfi.geo)
					if dfi.name != "geo.Distance" && r.P(1, 25) {
						// a line along the antimeridian: every longitude exactly 180 or -180 (both spellings), one latitude or
						// several. (Not with geo.Distance: it measures 180 against -180 as zero, so such a line of one latitude
						// has distinct vertices and no length - a case none of the property's clauses describes.)
						in = in[:0]
						lat := float64(r.Range(-80, 80))
						for k := r.Range(2, 5); k > 0; k-- {
							if r.P(1, 3) {
								lat = float64(r.Range(-80, 80))
							}
							in = append(in, orb.Point{[]float64{-180, 180}[r.Intn(2)], lat})
						}
						c.Count("lines_along_the_antimeridian", 1)
					}
					if r.P(1, 40) {
						in = nil
					}
					total, _ := c17total(in, dfi.f)
					if total == 0 && len(in) >= 2 && !allSame(in) {
						// distinct vertices that the distance function measures as no length at all (180 against -180 on one
						// parallel with geo.Distance): neither "a line of positive length" nor "a line whose vertices all
						// coincide" - no clause of the property describes it. Not driven (see DESIGN.md section 11).
						c.Count("skipped_distinct_vertices_of_zero_measured_length", 1)
						return
					}
					// ---- Resample
					var n int
					switch r.Intn(8) {
					case 0:
						n = r.Range(-2, 0)
					case 1:
						n = r.Range(1, 3)
					case 2:
						n = len(in) + r.Range(-1, 1)
					case 3:
						n = r.Range(60, 1000)
						if len(in) > 100 {
							n = r.Range(60, 200) // (the on-line oracle is quadratic)
						}
					default:
						n = r.Range(2, 60)
					}
					cs := c17case{sv(in), dfi.name, n, 0}
					c.Note([]byte(sv(cs)))
					var out orb.LineString
					if pv, stack := h.Catch(func() { out = resample.Resample(c17arg(r, in), dfi.f, n) }); pv != nil {
						c.Fail("", "Resample panicked", map[string]interface{}{"case": cs, "panic": sv(pv), "stack": stack})
					} else {
						c.Eval()
						switch {
						case n <= 0:
							if len(out) != 0 { // ("nothing": nil or an empty line string, the statement does not say which)
								c.Fail("", "Resample with N <= 0 did not return nothing", map[string]interface{}{"case": cs, "output": sv(out)})
							}
						case len(in) < 2:
							if !bitsEqualPts(out, in) || (out == nil) != (in == nil) {
								c.Fail("", "a line with fewer than two vertices is not returned as it is", map[string]interface{}{"case": cs, "output": sv(out), "input_is_nil": in == nil, "output_is_nil": out == nil})
							}
						case allSame(in):
							if len(out) != n || !allSame(out) || out[0] != in[0] {
								c.Fail("", "an all-coincident line is not padded/truncated to N copies of its point", map[string]interface{}{"case": cs, "output": sv(out)})
							}
						default:
							c17ret.check(c)
							if c17argFresh { // (the documented in-place API may return the argument's own storage)
								c17ret.set(out, "resample.Resample")
							}
							c17judge(c, cs, in, out, dfi.f, n)
							if n >= 3 {
								c.Nontrivial(h.Mix(hashPts(in), uint64(n), h.HashString(dfi.name)))
								c.Sample(map[string]interface{}{"case": cs, "output_points": len(out)})
							}
						}
					}
					// ---- ToInterval
					var d float64
					k := float64(r.Range(1, 40))
					switch r.Intn(8) {
					case 0:
						d = -r.Float64()
						if r.Bool() {
							d = 0
						}
					case 1:
						d = total / k
					case 2:
						d = math.Nextafter(total/k, math.Inf(1))
					case 3:
						d = math.Nextafter(total/k, 0)
					case 4:
						d = total*r.Uniform(1, 3) + 1
					default:
						d = total / r.Uniform(0.5, 300)
					}
					if d != d || (d > 0 && total/d > 5000) || (d > 0 && math.IsInf(d, 0)) {
						d = total/50 + 1e-3
					}
					cs = c17case{sv(in), dfi.name, 0, d}
					c.Note([]byte(sv(cs)))
					out = nil
					if pv, stack := h.Catch(func() { out = resample.ToInterval(c17arg(r, in), dfi.f, d) }); pv != nil {
						c.Fail("", "ToInterval panicked", map[string]interface{}{"case": cs, "panic": sv(pv), "stack": stack})
						return
					}
					c.Eval()
					switch {
					case d <= 0:
						if len(out) != 0 {
							c.Fail("", "ToInterval with d <= 0 did not return nothing", map[string]interface{}{"case": cs, "output": sv(out)})
						}
					case len(in) < 2:
						if !bitsEqualPts(out, in) || (out == nil) != (in == nil) {
							c.Fail("", "a line with fewer than two vertices is not returned as it is (ToInterval)", map[string]interface{}{"case": cs, "output": sv(out), "input_is_nil": in == nil, "output_is_nil": out == nil})
						}
					default:
						want := int(math.Floor(total/d)) + 1
						if allSame(in) {
							if len(out) != want || !allSame(out) || out[0] != in[0] {
								c.Fail("", "an all-coincident line is not padded/truncated to the interval count", map[string]interface{}{"case": cs, "output": sv(out), "want": want})
							}
						} else {
							cs.N = want
							c17judge(c, cs, in, out, dfi.f, want)
							if want >= 3 {
								c.Nontrivial(h.Mix(hashPts(in), math.Float64bits(d), h.HashString(dfi.name)))
							}
						}
					}
				},
			},
			{
				// A segment whose measured length is a few ulps of the length walked before it, while its coordinates
				// are far apart: 180 against -180 on one parallel under haversine measures about 1e-9 m (geo.Distance:
				// exactly 0). The walk compares targets with a rounded running sum there, and a sample aimed at the
				// turning vertex of an out-and-back line lands on exactly such a segment. (The thorough tier found the
				// library leaving the line here - repair 1568688 - in 3 of 80 million random cases; this drives it always.)
				Name: "segments-of-a-few-ulps", Count: h.Fixed(6000, 1000000),
				Run: func(c *h.Ctx, idx uint64, r *h.Rand) {
					dfi := dfs[2]
					if r.P(1, 5) {
						dfi = dfs[1]
					}
					spell := func() float64 { return []float64{-180, 180}[r.Intn(2)] }
					lat1 := float64(r.Range(-80, 80))
					lat2 := float64(r.Range(-80, 80))
					if lat2 == lat1 {
						lat2 = lat1 + 7
					}
					lon0 := spell()
					if r.Bool() {
						lon0 = float64(r.Range(-179, 179))
					}
					cur := spell()
					in := orb.LineString{{lon0, lat1}, {cur, lat2}}
					for f := r.Range(1, 3); f > 0; f-- {
						cur = -cur
						in = append(in, orb.Point{cur, lat2})
					}
					if r.Bool() {
						in = append(in, orb.Point{lon0, lat1}) // back again: the turning vertex is the middle of the length
					} else {
						in = append(in, orb.Point{spell(), float64(r.Range(-80, 80))})
					}
					total, d := c17total(in, dfi.f)
					if !(total > 0) {
						return
					}
					n := 2*r.Range(1, 40) + 1
					if r.P(1, 4) { // a count that puts a sample at the first leg's end: total/d[0] steps, when that is whole
						if q := total / d[0]; q == math.Floor(q) && q < 200 {
							n = int(q) + 1
						}
					}
					c.Count("tiny_measured_segments_driven", 1)
					cs := c17case{sv(in), dfi.name, n, 0}
					c.Note([]byte(sv(cs)))
					var out orb.LineString
					if pv, stack := h.Catch(func() { out = resample.Resample(cloneLS(in), dfi.f, n) }); pv != nil {
						c.Fail("", "Resample panicked", map[string]interface{}{"case": cs, "panic": sv(pv), "stack": stack})
						return
					}
					c.Eval()
					c17judge(c, cs, in, out, dfi.f, n)
					c.Nontrivial(h.Mix(hashPts(in), uint64(n), h.HashString(dfi.name)))
					dd := total / float64(n-1)
					if r.Bool() {
						dd = math.Nextafter(dd, 0)
					}
					cs = c17case{sv(in), dfi.name, 0, dd}
					c.Note([]byte(sv(cs)))
					out = nil
					if pv, stack := h.Catch(func() { out = resample.ToInterval(cloneLS(in), dfi.f, dd) }); pv != nil {
						c.Fail("", "ToInterval panicked", map[string]interface{}{"case": cs, "panic": sv(pv), "stack": stack})
						return
					}
					c.Eval()
					want := int(math.Floor(total/dd)) + 1
					cs.N = want
					c17judge(c, cs, in, out, dfi.f, want)
				},
			},
			{
				// (a) requests for more than a million points (an interval far shorter than the line): still floor(length/d)+1
				// of them, the k-th at k*d. (b) lines that are almost evenly spaced already (vertex k within a millionth of a
				// step of k/(N-1)) resampled to as many points as they have vertices: the result is evenly spaced, not "almost".
				Name: "very-many-points-and-almost-even-lines", Count: h.Fixed(300, 30000), BudgetSec: 120,
				Run: func(c *h.Ctx, idx uint64, r *h.Rand) {
					if idx%100 == 7 {
						// ---- (a): an axis-parallel integer line (lengths and positions exact)
						a, b := float64(r.Range(300000, 900000)), float64(r.Range(300000, 900000))
						in := orb.LineString{{0, 0}, {a, 0}, {a, b}}
						total := a + b
						d := []float64{1, 0.5, 0.75}[r.Intn(3)]
						want := int(math.Floor(total/d)) + 1
						cs := c17case{sv(in), "planar.Distance", 0, d}
						c.Note([]byte(sv(cs)))
						out := resample.ToInterval(cloneLS(in), planar.Distance, d)
						c.Eval()
						c.Max("points requested from one ToInterval call", float64(want), nil)
						if len(out) != want {
							c.Fail("", "wrong number of points", map[string]interface{}{"case": cs, "want": want, "got": len(out)})
							return
						}
						for k := 0; k < want-1; k += 1 + r.Intn(64) {
							s := float64(k) * total / float64(want-1)
							w := orb.Point{s, 0}
							if s > a {
								w = orb.Point{a, s - a}
							}
							if math.Abs(out[k][0]-w[0]) > 1e-6 || math.Abs(out[k][1]-w[1]) > 1e-6 {
								c.Fail("", "k-th point is not at k/(N-1) of the length along the line", map[string]interface{}{"case": cs, "k": k, "got": sv(out[k]), "want": sv(w)})
								return
							}
						}
						if out[want-1] != in[2] {
							c.Fail("", "last point is not the line's end", map[string]interface{}{"case": cs})
						}
						c.Nontrivial(h.Mix(hashPts(in), math.Float64bits(d)))
						return
					}
					// ---- (b)
					n := r.Range(3, 40)
					step := r.Uniform(0.5, 3)
					dir := r.Float64() * 2 * math.Pi
					if r.Bool() {
						dir = float64(r.Intn(4)) * math.Pi / 2
					}
					ux, uy := math.Cos(dir), math.Sin(dir)
					if r.Bool() {
						ux, uy = float64(r.Range(-1, 1)), 0
						if ux == 0 {
							uy = 1
						}
					}
					rel := []float64{5e-7, 1e-7, 2e-8, 9e-7, 1e-6}[r.Intn(5)]
					in := make(orb.LineString, n)
					for k := range in {
						t := float64(k) * step
						if k > 0 && k < n-1 && r.Bool() {
							t += step * rel * float64(r.Range(-1, 1))
						}
						in[k] = orb.Point{t * ux, t * uy}
					}
					cs := c17case{sv(in), "planar.Distance", n, 0}
					c.Note([]byte(sv(cs)))
					out := resample.Resample(cloneLS(in), planar.Distance, n)
					c.Eval()
					c17judge(c, cs, in, out, planar.Distance, n)
					total, _ := c17total(in, planar.Distance)
					out = resample.ToInterval(cloneLS(in), planar.Distance, total/float64(n-1))
					c.Eval()
					cs.N = int(math.Floor(total/(total/float64(n-1)))) + 1
					c17judge(c, cs, in, out, planar.Distance, cs.N)
					c.Count("almost_evenly_spaced_lines", 1)
					c.Nontrivial(h.Mix(hashPts(in), uint64(n)))
				},
			},
		},
	})
}
