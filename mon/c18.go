package mon

import (
	"math"

	"github.com/paulmach/orb"
	"github.com/paulmach/orb/geo"

	"verif/internal/h"
	"verif/internal/refmodel"
)

// C18 — spherical measures are symmetric, mutually inverse and match closed forms.

const earthR = orb.EarthRadius

func c18point(r *h.Rand) orb.Point {
	switch r.Intn(8) {
	case 0:
		return orb.Point{[]float64{-180, 180, 179.999, -179.999, 0}[r.Intn(5)], r.Uniform(-89, 89)}
	case 1:
		return orb.Point{float64(r.Range(-180, 180)), float64(r.Range(-89, 89))}
	default:
		return orb.Point{r.Uniform(-180, 180), r.Uniform(-89, 89)}
	}
}

func relClose(a, b, rel, abs float64) bool {
	return math.Abs(a-b) <= rel*math.Max(math.Abs(a), math.Abs(b))+abs
}

func init() {
	h.Register(&h.Monitor{
		ID: "C18",
		Rule: "random point pairs (lon in [-180,180] incl. both ends, lat in [-89,89], integer and float coordinates, pairs straddling the antimeridian in both argument orders, exact antipodes, close pairs < 10 km), bearings in [-180,180], distances in [0, 5000 km], lon/lat boxes up to a few degrees, rings of 3..12 vertices with every rotation, the reversal and the unclosed spelling, polygons with holes of either winding, multi-polygons and collections. " +
			"non-trivial = the two points differ / the ring has >= 3 distinct vertices; distinct = hash of the coordinates",
		MinNontrivial: h.Fixed(100000, 5000000),
		Assumptions: []string{
			"tolerances: destination and midpoint 1e-9*d + 1 mm (destination |lat| <= 89); haversine vs equirectangular 1e-5 relative below 10 km and |lat| <= 80; box area 1e-9 relative; rotation/reversal invariance 1e-9 of R^2 * sum|dlon|",
		},
		Subs: []h.Sub{
			{
				Name: "pairs", Count: h.Fixed(200000, 150000000),
				Run: func(c *h.Ctx, idx uint64, r *h.Rand) {
					p := c18point(r)
					var q orb.Point
					kind := r.Intn(6)
					switch kind {
					case 0: // straddle the antimeridian
						p[0] = 180 - r.Float64()*r.Float64()*5
						q = orb.Point{-180 + r.Float64()*r.Float64()*5, p[1] + r.Uniform(-1, 1)}
						if r.Bool() {
							p, q = q, p
						}
					case 1: // exact antipode
						q = orb.Point{p[0] + 180, -p[1]}
						if q[0] > 180 {
							q[0] -= 360
						}
					case 2, 3: // close pair (< 10 km)
						p[1] = r.Uniform(-80, 80)
						d := r.Uniform(0, 9000)
						a := r.Uniform(0, 2*math.Pi)
						q = orb.Point{p[0] + d*math.Cos(a)/(111320*math.Cos(p[1]*math.Pi/180)), p[1] + d*math.Sin(a)/110574}
						if q[0] > 180 || q[0] < -180 || math.Abs(q[1]) > 80 {
							q = p
						}
					default:
						q = c18point(r)
					}
					if q[1] > 89 {
						q[1] = 89
					} else if q[1] < -89 {
						q[1] = -89
					}
					d := map[string]interface{}{"p": sv(p), "q": sv(q)}
					hv, hv2 := geo.DistanceHaversine(p, q), geo.DistanceHaversine(q, p)
					eq, eq2 := geo.Distance(p, q), geo.Distance(q, p)
					c.Evals(4)
					if math.Float64bits(hv) != math.Float64bits(hv2) {
						c.Fail("", "DistanceHaversine is not symmetric", map[string]interface{}{"pair": d, "pq": hv, "qp": hv2})
					}
					if math.Float64bits(eq) != math.Float64bits(eq2) {
						c.Fail("", "Distance is not symmetric", map[string]interface{}{"pair": d, "pq": eq, "qp": eq2})
					}
					if !(hv >= 0 && hv <= math.Pi*earthR*(1+1e-12)) {
						c.Fail("", "DistanceHaversine not in [0, half the circumference] (or NaN)", map[string]interface{}{"pair": d, "got": hv})
					}
					if !(eq >= 0) || math.IsInf(eq, 0) {
						c.Fail("", "Distance negative, NaN or infinite", map[string]interface{}{"pair": d, "got": eq})
					}
					if hv < 10000 && math.Abs(p[1]) <= 80 && math.Abs(q[1]) <= 80 {
						c.Count("close_pairs", 1)
						if math.Abs(hv-eq) > 1e-5*hv+1e-6 {
							c.Fail("", "haversine and equirectangular distance differ by more than 1e-5 for a pair under 10 km", map[string]interface{}{"pair": d, "haversine": hv, "equirectangular": eq})
						}
						if hv > 1 {
							c.Max("max_rel_diff_haversine_equirect_under_10km", math.Abs(hv-eq)/hv, func() string { return sv(p) + " " + sv(q) })
						}
					}
					if kind == 1 {
						c.Count("antipodal_pairs", 1)
						if !relClose(hv, math.Pi*earthR, 1e-6, 0) { // atan2 near a = 1 is conditioned like sqrt(ulp) = 1e-8
							c.Fail("", "haversine distance of exact antipodes is not half the circumference", map[string]interface{}{"pair": d, "got": hv})
						}
					}
					if kind == 0 {
						c.Count("antimeridian_pairs", 1)
					}
					// midpoint equidistant
					if hv < math.Pi*earthR*0.99 {
						m := geo.Midpoint(p, q)
						d1, d2 := geo.DistanceHaversine(p, m), geo.DistanceHaversine(m, q)
						c.Eval()
						tol := 1e-9*hv + 1e-3
						if !(math.Abs(d1-d2) <= tol) || !(math.Abs(d1+d2-hv) <= 2*tol) {
							c.Fail("", "Midpoint is not equidistant from both ends (or not on the great circle)", map[string]interface{}{"pair": d, "mid": sv(m), "d1": d1, "d2": d2, "total": hv})
						}
					}
					// destination
					brg := r.Uniform(-180, 180)
					if r.P(1, 8) {
						brg = []float64{-180, -90, 0, 90, 180}[r.Intn(5)]
					}
					dist := r.Uniform(0, 5e6)
					if r.P(1, 8) {
						dist = []float64{0, 1, 1000, 5e6}[r.Intn(4)]
					}
					dst := geo.PointAtBearingAndDistance(p, brg, dist)
					c.Eval()
					if math.Abs(dst[1]) <= 89 {
						back := geo.DistanceHaversine(p, dst)
						if !(math.Abs(back-dist) <= 1e-9*dist+1e-3) {
							c.Fail("", "travelling a distance on a bearing does not land at that haversine distance", map[string]interface{}{"from": sv(p), "bearing": brg, "distance": dist, "to": sv(dst), "measured": back})
						}
						c.Count("destinations_checked", 1)
					}
					if p != q {
						c.Nontrivial(h.Mix(hashPts([]orb.Point{p, q}), math.Float64bits(brg)))
						c.Sample(map[string]interface{}{"p": sv(p), "q": sv(q), "haversine": hv, "equirectangular": eq})
					}
				},
			},
			{
				Name: "areas-and-lengths", Count: h.Fixed(20000, 15000000),
				Run: func(c *h.Ctx, idx uint64, r *h.Rand) {
					// --- box closed form
					lon0, lat0 := r.Uniform(-175, 170), r.Uniform(-85, 80)
					w, ht := r.Uniform(0.001, 4), r.Uniform(0.001, 4)
					box := orb.Bound{Min: orb.Point{lon0, lat0}, Max: orb.Point{lon0 + w, lat0 + ht}}
					want := earthR * earthR * (w * math.Pi / 180) * (math.Sin((lat0+ht)*math.Pi/180) - math.Sin(lat0*math.Pi/180))
					for _, g := range []orb.Geometry{box, box.ToRing(), box.ToPolygon()} {
						got := geo.Area(g)
						c.Eval()
						if !relClose(got, want, 1e-9, 0) {
							c.Fail("", "geodesic area of a lon/lat box differs from R^2*width*(sin top - sin bottom)", map[string]interface{}{"box": sv(box), "got": got, "want": want})
						}
					}
					// --- ring invariances
					n := r.Range(3, 12)
					cx, cy := r.Uniform(-170, 170), r.Uniform(-80, 80)
					rad := r.Uniform(0.01, 5)
					open := make(orb.Ring, n)
					sumdl := 0.0
					for i := range open {
						a := 2 * math.Pi * (float64(i) + r.Uniform(0, 0.9)) / float64(n)
						open[i] = orb.Point{cx + rad*r.Uniform(0.3, 1)*math.Cos(a), cy + rad*r.Uniform(0.3, 1)*math.Sin(a)}
					}
					for i := range open {
						sumdl += math.Abs(open[i][0]-open[(i+1)%n][0]) * math.Pi / 180
					}
					tolA := 1e-9 * earthR * earthR * sumdl
					closed := append(append(orb.Ring{}, open...), open[0])
					sa := geo.SignedArea(closed)
					a0 := geo.Area(closed)
					c.Evals(2)
					if !(math.Abs(math.Abs(sa)-a0) <= tolA) {
						c.Fail("", "Area(ring) is not |SignedArea(ring)|", map[string]interface{}{"ring": sv(closed), "area": a0, "signed": sa})
					}
					if ua := geo.Area(open); !(math.Abs(ua-a0) <= tolA) {
						c.Fail("", "closed and unclosed spelling of a ring have different areas", map[string]interface{}{"ring": sv(open), "closed": a0, "unclosed": ua})
					}
					for k := 1; k < n; k++ {
						rot := make(orb.Ring, 0, n+1)
						for i := 0; i < n; i++ {
							rot = append(rot, open[(i+k)%n])
						}
						rot = append(rot, rot[0])
						ra := geo.SignedArea(rot)
						c.Eval()
						if !(math.Abs(ra-sa) <= tolA) {
							c.Fail("", "area changes when the ring starts at another vertex", map[string]interface{}{"ring": sv(closed), "rotation": k, "area": sa, "rotated": ra})
							break
						}
					}
					rev := closed.Clone()
					rev.Reverse()
					rsa := geo.SignedArea(rev)
					c.Eval()
					if !(math.Abs(rsa+sa) <= tolA) || !(math.Abs(geo.Area(rev)-a0) <= tolA) {
						c.Fail("", "reversing a ring does not negate the signed area / keep the area", map[string]interface{}{"ring": sv(closed), "signed": sa, "reversed_signed": rsa})
					}
					// --- polygon = outer - holes (holes of either winding), multi = sum
					holes := r.Intn(3)
					poly := orb.Polygon{closed}
					wantP := a0
					for k := 0; k < holes; k++ {
						hr := rad * 0.1
						hx, hy := cx+r.Uniform(-0.1, 0.1)*rad, cy+r.Uniform(-0.1, 0.1)*rad
						hole := orb.Ring{{hx, hy}, {hx + hr, hy}, {hx + hr, hy + hr}, {hx, hy + hr}, {hx, hy}}
						if r.Bool() {
							hole.Reverse()
						}
						wantP -= geo.Area(hole)
						if r.P(1, 3) {
							hole = hole[:4] // (without the repeated closing vertex, whatever the outer ring's spelling)
						}
						poly = append(poly, hole)
					}
					pa := geo.Area(poly)
					c.Eval()
					if !(math.Abs(pa-wantP) <= 2*tolA+1e-9*a0) {
						c.Fail("", "polygon area is not outer minus holes", map[string]interface{}{"polygon": sv(poly), "got": pa, "want": wantP})
					}
					mp := orb.MultiPolygon{poly, box.ToPolygon()}
					if ma := geo.Area(mp); !(math.Abs(ma-(pa+want)) <= 4*tolA+1e-9*(a0+want)) {
						c.Fail("", "multi-polygon area is not the sum of its polygons", map[string]interface{}{"got": ma, "want": pa + want})
					}
					coll := orb.Collection{mp, closed, orb.Point{1, 2}, orb.LineString(open)}
					if ca := geo.Area(coll); !(math.Abs(ca-(pa+want+a0)) <= 6*tolA+1e-9*(2*a0+want)) {
						c.Fail("", "collection area is not the sum of its members", map[string]interface{}{"got": ca, "want": pa + want + a0})
					}
					// the box once more, as a Bound value among the members (also nested)
					collB := orb.Collection{closed, box, orb.Collection{box}}
					if ca := geo.Area(collB); !(math.Abs(ca-(2*want+a0)) <= 6*tolA+1e-9*(a0+2*want)) {
						c.Fail("", "a bound among the members of a collection does not count with the area of the box it denotes", map[string]interface{}{"collection": sv(collB), "got": ca, "want": 2*want + a0})
					}
					c.Evals(2)
					// --- lengths are sums of segment distances
					ls := orb.LineString(open)
					sumE, sumH := 0.0, 0.0
					for i := 1; i < len(ls); i++ {
						sumE += geo.Distance(ls[i-1], ls[i])
						sumH += geo.DistanceHaversine(ls[i-1], ls[i])
					}
					if l := geo.Length(ls); !relClose(l, sumE, 1e-12, 0) {
						c.Fail("", "geo.Length is not the sum of segment distances", map[string]interface{}{"line": sv(ls), "got": l, "want": sumE})
					}
					if l := geo.LengthHaversine(ls); !relClose(l, sumH, 1e-12, 0) {
						c.Fail("", "geo.LengthHaversine is not the sum of segment distances", map[string]interface{}{"line": sv(ls), "got": l, "want": sumH})
					}
					if l := geo.LengthHaversine(orb.MultiLineString{ls, ls}); !relClose(l, 2*sumH, 1e-12, 0) {
						c.Fail("", "multi line string length is not the sum of its members", map[string]interface{}{"got": l, "want": 2 * sumH})
					}
					c.Evals(3)
					// a bound is measured as its ring (the four sides are not pairwise equal on the sphere)
					br := refmodel.BoundRing(box)
					bE, bH := 0.0, 0.0
					for i := 1; i < len(br); i++ {
						bE += geo.Distance(br[i-1], br[i])
						bH += geo.DistanceHaversine(br[i-1], br[i])
					}
					if l := geo.Length(box); !relClose(l, bE, 1e-12, 0) {
						c.Fail("", "geo.Length(bound) is not the sum of its four sides", map[string]interface{}{"bound": sv(box), "got": l, "want": bE})
					}
					if l := geo.LengthHaversine(orb.Collection{box, ls}); !relClose(l, bH+sumH, 1e-12, 0) {
						c.Fail("", "geo.LengthHaversine(collection with a bound) is not the sum of the members' segment distances", map[string]interface{}{"bound": sv(box), "got": l, "want": bH + sumH})
					}
					c.Evals(2)
					// PointAtDistanceAlongLine lands on the line at that distance from the start (first segment case)
					if sumH > 0 {
						dd := r.Uniform(0, geo.DistanceHaversine(ls[0], ls[1]))
						pt, _ := geo.PointAtDistanceAlongLine(ls, dd)
						c.Eval()
						if back := geo.DistanceHaversine(ls[0], pt); !(math.Abs(back-dd) <= 1e-9*dd+1e-3) {
							c.Fail("", "PointAtDistanceAlongLine is not at the requested distance along the first segment", map[string]interface{}{"line": sv(ls), "distance": dd, "point": sv(pt), "measured": back})
						}
					}
					c.Nontrivial(hashPts(closed))
					c.Sample(map[string]interface{}{"ring": sv(closed), "signed_area_m2": sa, "box": sv(box), "box_area_m2": want})
				},
			},
			{
				// continent-sized and world-spanning vertex lists on special coordinates: integer degrees, vertices exactly on the
				// equator, the prime meridian, the antimeridian; rings wider than 180 degrees of longitude
				Name: "special-coordinates-and-wide-rings", Count: h.Fixed(20000, 6000000),
				Run: func(c *h.Ctx, idx uint64, r *h.Rand) {
					n := r.Range(3, 10)
					open := make(orb.Ring, n)
					mode := r.Intn(4)
					for i := range open {
						switch mode {
						case 0: // integer degrees anywhere
							open[i] = orb.Point{float64(r.Range(-180, 180)), float64(r.Range(-89, 89))}
						case 1: // multiples of 10 and 45 degrees: many exact zeros, right angles, the antimeridian
							open[i] = orb.Point{[]float64{-180, -135, -90, -45, 0, 45, 90, 135, 180, 10, -10}[r.Intn(11)], []float64{-80, -45, -10, 0, 0, 10, 45, 80}[r.Intn(8)]}
						case 2: // floats over the whole world
							open[i] = orb.Point{r.Uniform(-180, 180), r.Uniform(-89, 89)}
						default: // a wide star around a centre near the equator
							a := 2 * math.Pi * (float64(i) + r.Uniform(0, 0.9)) / float64(n)
							open[i] = orb.Point{r.Uniform(-20, 20) + 150*r.Uniform(0.5, 1)*math.Cos(a), 80 * r.Uniform(0.3, 1) * math.Sin(a)}
							open[i][0] = math.Max(-180, math.Min(180, open[i][0]))
						}
					}
					if r.P(1, 3) {
						open[0][1] = 0 // the first vertex exactly on the equator
					}
					if r.P(1, 6) {
						open[0][0] = 0
					}
					minLon, maxLon, sumdl := 180.0, -180.0, 0.0
					for i := range open {
						minLon, maxLon = math.Min(minLon, open[i][0]), math.Max(maxLon, open[i][0])
						sumdl += math.Abs(open[i][0]-open[(i+1)%n][0]) * math.Pi / 180
					}
					if maxLon-minLon > 180 {
						c.Count("rings_wider_than_180_degrees", 1)
					}
					tolA := 1e-9 * earthR * earthR * (sumdl + 1)
					closed := append(append(orb.Ring{}, open...), open[0])
					sa := geo.SignedArea(closed)
					a0 := geo.Area(closed)
					c.Evals(2)
					if !(math.Abs(math.Abs(sa)-a0) <= tolA) {
						c.Fail("", "Area(ring) is not |SignedArea(ring)|", map[string]interface{}{"ring": sv(closed), "area": a0, "signed": sa})
					}
					if ua := geo.SignedArea(open); !(math.Abs(ua-sa) <= tolA) {
						c.Fail("", "closed and unclosed spelling of a ring have different areas", map[string]interface{}{"ring": sv(open), "closed": sa, "unclosed": ua})
					}
					for k := 1; k < n; k++ {
						rot := make(orb.Ring, 0, n+1)
						for i := 0; i < n; i++ {
							rot = append(rot, open[(i+k)%n])
						}
						ura := geo.SignedArea(rot)
						rot = append(rot, rot[0])
						ra := geo.SignedArea(rot)
						c.Evals(2)
						if !(math.Abs(ra-sa) <= tolA) || !(math.Abs(ura-sa) <= tolA) {
							c.Fail("", "area changes when the ring starts at another vertex", map[string]interface{}{"ring": sv(closed), "rotation": k, "area": sa, "rotated_closed": ra, "rotated_unclosed": ura})
							break
						}
					}
					rev := closed.Clone()
					rev.Reverse()
					if rsa := geo.SignedArea(rev); !(math.Abs(rsa+sa) <= tolA) || !(math.Abs(geo.Area(rev)-a0) <= tolA) {
						c.Fail("", "reversing a ring does not negate the signed area / keep the area", map[string]interface{}{"ring": sv(closed), "signed": sa, "reversed_signed": rsa})
					}
					c.Eval()
					// lengths: the sum of the segment distances for every kind that has segments
					seg := func(ps []orb.Point, df func(a, b orb.Point) float64) float64 {
						t := 0.0
						for i := 1; i < len(ps); i++ {
							t += df(ps[i-1], ps[i])
						}
						return t
					}
					ls := orb.LineString(open)
					if r.P(1, 3) {
						// a densified straight run: vertices exactly collinear in lon/lat (integer steps), along a parallel,
						// a meridian or a diagonal, forwards and sometimes back over itself
						st := orb.Point{float64(r.Range(-60, 60)), float64(r.Range(-60, 60))}
						dx, dy := float64(r.Range(-2, 2)), float64(r.Range(-2, 2))
						if dx == 0 && dy == 0 {
							dx = 1
						}
						ls = orb.LineString{st}
						for i, k := 1, r.Range(2, 9); i <= k; i++ {
							ls = append(ls, orb.Point{st[0] + float64(i)*dx, st[1] + float64(i)*dy})
						}
						if r.P(1, 4) {
							ls = append(ls, orb.Point{st[0] + dx, st[1] + dy})
						}
						ls = append(ls, open[0])
						c.Count("densified_straight_runs", 1)
					}
					other := orb.LineString{{float64(r.Range(-170, 170)), 0}, {float64(r.Range(-170, 170)), float64(r.Range(-80, 80))}, {r.Uniform(-170, 170), r.Uniform(-80, 80)}}
					bound := orb.Bound{Min: orb.Point{float64(r.Range(-170, 0)), float64(r.Range(-80, 0))}, Max: orb.Point{float64(r.Range(0, 170)), float64(r.Range(0, 80))}}
					if r.Bool() {
						bound.Min[1] = 0
					}
					type lcase struct {
						name   string
						g      orb.Geometry
						wE, wH float64
					}
					brE, brH := seg(refmodel.BoundRing(bound), geo.Distance), seg(refmodel.BoundRing(bound), geo.DistanceHaversine)
					lE, lH := seg(ls, geo.Distance), seg(ls, geo.DistanceHaversine)
					cE, cH := seg(closed, geo.Distance), seg(closed, geo.DistanceHaversine)
					oE, oH := seg(other, geo.Distance), seg(other, geo.DistanceHaversine)
					for _, lc := range []lcase{
						{"line string", ls, lE, lH},
						{"ring", closed, cE, cH},
						{"polygon (outer ring and a hole)", orb.Polygon{closed, orb.Ring(other)}, cE + oE, cH + oH},
						{"multi line string", orb.MultiLineString{other, ls}, oE + lE, oH + lH},
						{"multi polygon", orb.MultiPolygon{{orb.Ring(other)}, {closed}}, oE + cE, oH + cH},
						{"bound", bound, brE, brH},
						{"collection", orb.Collection{other, bound, orb.Point{1, 0}, orb.Collection{ls}}, oE + brE + lE, oH + brH + lH},
						{"collection holding the same nested collection twice", func() orb.Geometry {
							leg := orb.Collection{ls}
							return orb.Collection{leg, other, leg, orb.Collection{leg}}
						}(), oE + 3*lE, oH + 3*lH},
					} {
						c.Evals(2)
						if got := geo.Length(lc.g); !relClose(got, lc.wE, 1e-12, 0) {
							c.Fail("", "geo.Length("+lc.name+") is not the sum of its segment distances", map[string]interface{}{"value": sv(lc.g), "got": got, "want": lc.wE})
						}
						if got := geo.LengthHaversine(lc.g); !relClose(got, lc.wH, 1e-12, 0) {
							c.Fail("", "geo.LengthHaversine("+lc.name+") is not the sum of its segment distances", map[string]interface{}{"value": sv(lc.g), "got": got, "want": lc.wH})
						}
					}
					c.Nontrivial(hashPts(closed))
					c.Sample(map[string]interface{}{"ring": sv(closed), "signed_area_m2": sa, "lon_extent": maxLon - minLon})
				},
			},
		},
	})
}
