package mon

import (
	"math"
	"math/big"

	"github.com/paulmach/orb"
	"github.com/paulmach/orb/planar"

	"verif/internal/exact"
	"verif/internal/gen"
	"verif/internal/h"
	"verif/internal/refmodel"
)

// C10 — planar area, centroid, length and distance equal their exact values.
// Oracle: big.Rat shoelace / centroid / point-segment projection, big.Float square roots.

// exactCentroid returns the area-weighted centroid and 2*signed area of the implicitly closed ring.
func exactCentroid(ring []P) (cx, cy float64, a2 *big.Rat) {
	a2 = exact.Area2(ring)
	if a2.Sign() == 0 {
		return 0, 0, a2
	}
	sx, sy := new(big.Rat), new(big.Rat)
	n := len(ring)
	for i := 0; i < n; i++ {
		p, q := ring[i], ring[(i+1)%n]
		cr := new(big.Rat).Sub(new(big.Rat).Mul(exact.R(p[0]), exact.R(q[1])), new(big.Rat).Mul(exact.R(q[0]), exact.R(p[1])))
		sx.Add(sx, new(big.Rat).Mul(new(big.Rat).Add(exact.R(p[0]), exact.R(q[0])), cr))
		sy.Add(sy, new(big.Rat).Mul(new(big.Rat).Add(exact.R(p[1]), exact.R(q[1])), cr))
	}
	d := new(big.Rat).Mul(big.NewRat(3, 1), a2) // 6A = 3 * (2A)
	return exact.F(sx.Quo(sx, d)), exact.F(sy.Quo(sy, d)), a2
}

func extentOf(ps []P) (ext, scale float64) {
	minx, miny, maxx, maxy := math.Inf(1), math.Inf(1), math.Inf(-1), math.Inf(-1)
	for _, p := range ps {
		minx, miny, maxx, maxy = math.Min(minx, p[0]), math.Min(miny, p[1]), math.Max(maxx, p[0]), math.Max(maxy, p[1])
	}
	ext = math.Hypot(maxx-minx, maxy-miny)
	scale = math.Max(math.Max(math.Abs(minx), math.Abs(maxx)), math.Max(math.Abs(miny), math.Abs(maxy))) + ext
	return
}

func exactLen(ps []P, closed bool) float64 {
	s := new(big.Float).SetPrec(200)
	n := len(ps)
	m := n - 1
	if closed {
		m = n
	}
	for i := 0; i < m; i++ {
		a, b := ps[i], ps[(i+1)%n]
		dx := new(big.Rat).Sub(exact.R(a[0]), exact.R(b[0]))
		dy := new(big.Rat).Sub(exact.R(a[1]), exact.R(b[1]))
		d2 := dx.Add(dx.Mul(dx, dx), dy.Mul(dy, dy))
		f := new(big.Float).SetPrec(200).SetRat(d2)
		s.Add(s, f.Sqrt(f))
	}
	v, _ := s.Float64()
	return v
}

// exactDist is the distance from q to the polyline (min over segments), via exact squared distances.
func exactDist(q P, ps []P, closed bool) float64 {
	var best *big.Rat
	n := len(ps)
	m := n - 1
	if closed {
		m = n
	}
	for i := 0; i < m; i++ {
		d := exact.Dist2PointSeg(q, ps[i], ps[(i+1)%n])
		if best == nil || d.Cmp(best) < 0 {
			best = d
		}
	}
	if best == nil {
		return math.Inf(1)
	}
	return exact.SqrtRat(best)
}

func isConvex(open []P) bool {
	// all turns in one direction is not enough (a pentagram turns one way too): the ring must also be simple
	if !exact.IsSimpleRing(open) {
		return false
	}
	n := len(open)
	s := 0
	for i := 0; i < n; i++ {
		o := exact.Orient(open[i], open[(i+1)%n], open[(i+2)%n])
		if o == 0 {
			continue
		}
		if s == 0 {
			s = o
		} else if o != s {
			return false
		}
	}
	return s != 0
}

func c10intRing(r *h.Rand) []P {
	// integer ring (not closed) with |v| <= 2^20: a base point plus local offsets of several magnitudes
	mag := []int{10, 100, 5000, 1 << 19}[r.Intn(4)]
	bx, by := 0, 0
	if r.Bool() {
		bx, by = r.Range(-(1<<19), 1<<19), r.Range(-(1<<19), 1<<19)
	}
	n := r.Range(3, 12)
	var ring []P
	if r.P(1, 8) {
		// a box, or a box with one coordinate of one corner moved (a right trapezoid, a dented box): in either winding,
		// started at any corner. A box is the one ring shape with a cheaper answer; an almost-box is not one.
		w, ht := r.Range(1, mag), r.Range(1, mag)
		x0, y0 := float64(bx), float64(by)
		x2, y2 := float64(bx+w), float64(by+ht)
		ring = []P{{x0, y0}, {x2, y0}, {x2, y2}, {x0, y2}}
		if r.P(3, 4) {
			ring[r.Intn(4)][r.Intn(2)] += float64([]int{-1, 1, -2, 3, -w, ht}[r.Intn(6)])
		}
		k := r.Intn(4)
		ring = append(ring[k:], ring[:k]...)
		if r.Bool() {
			ring = gen.Reversed(ring)
		}
	} else if r.Bool() {
		// star shaped, snapped to integers (may self-touch; arbitrary lists are fine for the shoelace)
		ring = gen.Star(r, n, float64(bx), float64(by), float64(mag)/4, float64(mag), 1)
	} else {
		ring = make([]P, n)
		for i := range ring {
			ring[i] = P{float64(bx + r.Range(-mag, mag)), float64(by + r.Range(-mag, mag))}
		}
	}
	for i := range ring {
		for k := 0; k < 2; k++ {
			if ring[i][k] > 1<<20 {
				ring[i][k] = 1 << 20
			} else if ring[i][k] < -(1 << 20) {
				ring[i][k] = -(1 << 20)
			}
		}
	}
	return ring
}

func init() {
	h.Register(&h.Monitor{
		ID: "C10",
		Rule: "integer rings of 3..12 vertices with |v| <= 2^20 (local extents 10, 100, 5000, 2^19 around a random base point; star-shaped and arbitrary vertex lists) in every rotation, reversed and translated by integer vectors, with lattice query points (vertices, edge midpoints, nearby lattice points); validated polygons with holes of either winding, multi-polygons, collections with lower-dimensional members; line strings, multi line strings and multi points for length/count weighted centroids; general-position float rings of 3..48 vertices compared within a relative 1e-9; boxes with one corner coordinate moved, every segment of the 5x5 grid against every point of the 7x7 grid, points and multi points (no area, no length). " +
			"non-trivial = ring of non-zero area (exact); distinct = hash of the vertices",
		MinNontrivial: h.Fixed(10000, 500000),
		Assumptions: []string{
			"integer inputs with |v| <= 2^20: Area must equal the big-integer shoelace exactly; centroid within 1e-9*scale + 1e-13*extent*(extent^2/|A|) (the float centroid is conditioned like extent^2/|A|); length 1e-12 relative; distances 1e-9*scale, exactly 0 at vertices",
			"rings are given closed where the property speaks of boundary segments (DistanceFrom does not close a ring implicitly)",
		},
		Subs: []h.Sub{
			{
				Name: "integer-rings", Count: h.Fixed(12000, 600000),
				Run: func(c *h.Ctx, idx uint64, r *h.Rand) {
					open := c10intRing(r)
					n := len(open)
					closed := gen.Close(open)
					ring := pToRing(closed)
					cxE, cyE, a2 := exactCentroid(open)
					wantA := exact.F(new(big.Rat).Quo(a2, big.NewRat(2, 1)))
					ext, scale := extentOf(open)
					d := func() map[string]interface{} { return map[string]interface{}{"ring": closed} }
					ctr, area := planar.CentroidArea(ring)
					c.Eval()
					if area != wantA {
						c.Fail("", "planar area of an integer ring differs from the exact shoelace value", map[string]interface{}{"case": d(), "got": area, "want": wantA})
					}
					if a := planar.Area(ring); a != area {
						c.Fail("", "Area and CentroidArea disagree", map[string]interface{}{"case": d(), "area": a, "centroid_area": area})
					}
					if ua := planar.Area(pToRing(open)); ua != wantA {
						c.Fail("", "unclosed spelling of the ring has a different area", map[string]interface{}{"case": d(), "got": ua, "want": wantA})
					}
					if a2.Sign() != 0 {
						absA := math.Abs(wantA)
						tol := 1e-9*scale + 1e-13*ext*(ext*ext/absA)
						if !(math.Abs(ctr[0]-cxE) <= tol && math.Abs(ctr[1]-cyE) <= tol) {
							c.Fail("", "ring centroid differs from the exact area-weighted mean", map[string]interface{}{"case": d(), "got": sv(ctr), "want": []float64{cxE, cyE}, "tol": tol})
						}
						if isConvex(open) {
							b := ring.Bound()
							if ctr[0] < b.Min[0]-tol || ctr[0] > b.Max[0]+tol || ctr[1] < b.Min[1]-tol || ctr[1] > b.Max[1]+tol {
								c.Fail("", "centroid of a convex ring lies outside its bound", map[string]interface{}{"case": d(), "got": sv(ctr)})
							}
							c.Count("convex_rings", 1)
						}
						// orientation sign
						if o := ring.Orientation(); (o == orb.CCW) != (a2.Sign() > 0) || o == 0 {
							c.Fail("", "sign of the area does not match the ring's orientation", map[string]interface{}{"case": d(), "orientation": int(o), "area": area})
						}
					}
					// rotations, reversal, translation: exact
					for k := 1; k < n; k++ {
						rot := make([]P, 0, n+1)
						for i := 0; i < n; i++ {
							rot = append(rot, open[(i+k)%n])
						}
						if a := planar.Area(pToRing(gen.Close(rot))); a != wantA {
							c.Fail("", "area changes when the ring starts at another vertex", map[string]interface{}{"case": d(), "rotation": k, "got": a, "want": wantA})
							break
						}
						c.Eval()
					}
					if a := planar.Area(pToRing(gen.Close(gen.Reversed(open)))); a != -wantA {
						c.Fail("", "reversing the ring does not negate the area exactly", map[string]interface{}{"case": d(), "got": a, "want": -wantA})
					}
					tx, ty := float64(r.Range(-1000, 1000)), float64(r.Range(-1000, 1000))
					tr := make([]P, len(closed))
					okT := true
					for i, p := range closed {
						tr[i] = P{p[0] + tx, p[1] + ty}
						okT = okT && math.Abs(tr[i][0]) <= 1<<20 && math.Abs(tr[i][1]) <= 1<<20
					}
					if okT {
						if a := planar.Area(pToRing(tr)); a != wantA {
							c.Fail("", "area changes under an integer translation", map[string]interface{}{"case": d(), "translation": []float64{tx, ty}, "got": a, "want": wantA})
						}
					}
					c.Evals(3)
					// length
					if l, want := planar.Length(ring), exactLen(closed, false); !relClose(l, want, 1e-12, 0) {
						c.Fail("", "planar.Length differs from the exact sum of segment lengths", map[string]interface{}{"case": d(), "got": l, "want": want})
					}
					// distance-from: lattice queries
					var qs []P
					for i := 0; i < n; i++ {
						qs = append(qs, open[i])
						j := (i + 1) % n
						if int64(open[i][0]+open[j][0])%2 == 0 && int64(open[i][1]+open[j][1])%2 == 0 {
							qs = append(qs, P{(open[i][0] + open[j][0]) / 2, (open[i][1] + open[j][1]) / 2}) // lattice midpoint: on the boundary
						}
					}
					for i := 0; i < 6; i++ {
						v := open[r.Intn(n)]
						qs = append(qs, P{v[0] + float64(r.Range(-5, 5)), v[1] + float64(r.Range(-5, 5))})
					}
					for qi, q := range qs {
						got := planar.DistanceFrom(ring, orb.Point{q[0], q[1]})
						want := exactDist(q, closed, false)
						c.Eval()
						_, sc := extentOf(append([]P{q}, open...))
						if !(math.Abs(got-want) <= 1e-9*sc) {
							c.Fail("", "DistanceFrom(ring, p) is not the minimum point-segment distance", map[string]interface{}{"case": d(), "point": q, "got": got, "want": want})
							break
						}
						if qi < 2*n && want == 0 {
							c.Count("boundary_queries", 1)
							isVertex := false
							for _, v := range open {
								isVertex = isVertex || v == q
							}
							if isVertex && got != 0 {
								c.Fail("", "DistanceFrom is not exactly zero at a vertex", map[string]interface{}{"case": d(), "point": q, "got": got})
							}
						}
						if lsd := planar.DistanceFrom(orb.LineString(ring), orb.Point{q[0], q[1]}); lsd != got {
							c.Fail("", "DistanceFrom differs between the ring and the same vertices as a line string", map[string]interface{}{"case": d(), "point": q, "ring": got, "line": lsd})
						}
					}
					if a2.Sign() != 0 {
						c.Nontrivial(hashP(open))
						c.Sample(map[string]interface{}{"ring": closed, "exact_area": wantA, "exact_centroid": []float64{cxE, cyE}})
					}
				},
			},
			{
				Name: "polygons-and-collections", Count: h.Fixed(5000, 500000),
				Run: func(c *h.Ctx, idx uint64, r *h.Rand) {
					sz := []float64{40, 400, 20000}[r.Intn(3)]
					bx, by := float64(r.Range(-1000, 1000)), float64(r.Range(-1000, 1000))
					np := r.Range(1, 3)
					var mp orb.MultiPolygon
					var models [][][]P
					total := new(big.Rat)
					for k := 0; k < np; k++ {
						psz, px, py := sz, bx+float64(k)*sz*3, by
						if k > 0 && r.Bool() {
							// close to (or inside the bounding box of) the first polygon, and smaller
							psz = math.Max(12, sz/float64(r.Range(2, 6)))
							px, py = bx+r.Uniform(-1.2, 1.2)*sz, by+r.Uniform(-1.2, 1.2)*sz
						}
						rings := gen.MustPolygonWithHoles(r, r.Range(3, 9), math.Round(px), math.Round(py), psz/3, psz, 1, r.Intn(4))
						var pg orb.Polygon
						pa := new(big.Rat)
						for i, rr := range rings {
							v := rr
							if i > 0 && r.Bool() {
								v = gen.Reversed(rr) // holes of either winding
							}
							if i == 0 && r.P(1, 4) {
								v = gen.Reversed(rr)
							}
							pg = append(pg, pToRing(v))
							a := new(big.Rat).Abs(exact.Area2(rr))
							if i == 0 {
								pa.Add(pa, a)
							} else {
								pa.Sub(pa, a)
							}
						}
						wantP := exact.F(new(big.Rat).Quo(pa, big.NewRat(2, 1)))
						got := planar.Area(pg)
						c.Eval()
						if got != wantP || got < 0 {
							c.Fail("", "polygon area is not |outer| minus the |holes|", map[string]interface{}{"polygon": sv(pg), "got": got, "want": wantP})
						}
						// polygon centroid: (A_o C_o - sum A_h C_h) / (A_o - sum A_h)
						if pa.Sign() > 0 {
							nx, ny := new(big.Rat), new(big.Rat)
							for i, rr := range rings {
								cx, cy, a2 := exactCentroid(rr[:len(rr)-1])
								a := new(big.Rat).Abs(a2)
								if i > 0 {
									a.Neg(a)
								}
								nx.Add(nx, new(big.Rat).Mul(a, exact.R(cx)))
								ny.Add(ny, new(big.Rat).Mul(a, exact.R(cy)))
							}
							wx, wy := exact.F(nx.Quo(nx, pa)), exact.F(ny.Quo(ny, pa))
							ctr, _ := planar.CentroidArea(pg)
							ext, scale := extentOf(rings[0])
							tol := 1e-9*scale + 1e-13*ext*(ext*ext/wantP)
							if !(math.Abs(ctr[0]-wx) <= tol && math.Abs(ctr[1]-wy) <= tol) {
								c.Fail("", "polygon centroid differs from the exact area-weighted mean", map[string]interface{}{"polygon": sv(pg), "got": sv(ctr), "want": []float64{wx, wy}, "tol": tol})
							}
						}
						// the same polygon with some of its rings spelled without the repeated closing vertex (the outer ring
						// and each hole independently): same area, same centroid
						if len(pg) > 0 {
							mixed := clonePoly(pg)
							changed := false
							for i := range mixed {
								if n := len(mixed[i]); n >= 4 && r.Bool() {
									mixed[i] = mixed[i][:n-1]
									changed = true
								}
							}
							if changed {
								mc, ma := planar.CentroidArea(mixed)
								oc, oa := planar.CentroidArea(pg)
								c.Eval()
								_, sc := extentOf(rings[0])
								if !relClose(ma, oa, 1e-12, 0) || !relClose(planar.Area(mixed), oa, 1e-12, 0) || !(math.Abs(mc[0]-oc[0]) <= 1e-9*sc && math.Abs(mc[1]-oc[1]) <= 1e-9*sc) {
									c.Fail("", "spelling some rings of a polygon without the closing vertex changes its area or centroid", map[string]interface{}{"polygon": sv(mixed), "area": ma, "centroid": sv(mc), "area_all_closed": oa, "centroid_all_closed": sv(oc)})
								}
							}
						}
						total.Add(total, pa)
						mp = append(mp, pg)
						models = append(models, rings)
					}
					wantM := exact.F(new(big.Rat).Quo(total, big.NewRat(2, 1)))
					if got := planar.Area(mp); !relClose(got, wantM, 1e-15, 0) {
						c.Fail("", "multi-polygon area is not the sum of its polygons", map[string]interface{}{"got": got, "want": wantM})
					}
					// collection: only the top-dimensional members count
					line := orb.LineString{{bx, by}, {bx + 7, by + 3}}
					coll := orb.Collection{orb.Point{bx, by}, line, cloneMP(mp), orb.MultiPoint{{1, 1}, {2, 2}}, orb.Collection{line}}
					if got := planar.Area(coll); !relClose(got, wantM, 1e-15, 0) {
						c.Fail("", "collection area is not the sum over its top-dimensional members", map[string]interface{}{"got": got, "want": wantM})
					}
					c.Evals(2)
					// centroid: the area-weighted mean of the polygons' centroids (each judged above), whatever lower-dimensional
					// members the collection holds and wherever they stand among the members
					{
						sx, sy, sa := 0.0, 0.0, 0.0
						for _, pg := range mp {
							pc, pa := planar.CentroidArea(pg)
							sx, sy, sa = sx+(pc[0]-bx)*pa, sy+(pc[1]-by)*pa, sa+pa
						}
						if sa > 0 {
							want := orb.Point{bx + sx/sa, by + sy/sa}
							members := []orb.Geometry{orb.Point{bx, by}, line, orb.MultiPoint{{1, 1}, {2, 2}}, orb.Collection{line}, orb.Collection{orb.Point{bx + 9, by - 4}, orb.Collection{line}}}
							if r.Bool() {
								members = append(members, cloneMP(mp))
							} else {
								for _, pg := range mp {
									if r.Bool() {
										members = append(members, clonePoly(pg))
									} else {
										members = append(members, orb.Collection{clonePoly(pg)})
									}
								}
							}
							var shuffled orb.Collection
							for _, i := range r.Perm(len(members)) {
								shuffled = append(shuffled, members[i])
							}
							_, sc := extentOf(models[0][0])
							tolc := 1e-9 * (sc + sz)
							for name, g := range map[string]orb.Geometry{"multi-polygon": mp, "collection (polygons after lower-dimensional members)": coll, "collection (members in random order)": shuffled} {
								gc, ga := planar.CentroidArea(g)
								c.Eval()
								if !relClose(ga, wantM, 1e-12, 0) {
									c.Fail("", "area of a "+name+" is not the sum over its top-dimensional members", map[string]interface{}{"value": sv(g), "got": ga, "want": wantM})
								}
								if !(math.Abs(gc[0]-want[0]) <= tolc && math.Abs(gc[1]-want[1]) <= tolc) {
									c.Fail("", "centroid of a "+name+" is not the area-weighted mean of its polygons' centroids", map[string]interface{}{"value": sv(g), "got": sv(gc), "want": sv(want), "tol": tolc})
								}
							}
						}
					}
					// a bound is the rectangle it denotes: as a member (also as the only surface of a nested collection) it counts
					// exactly like that rectangle written as a polygon
					{
						x0, y0 := bx+float64(r.Range(-50, 50)), by+float64(r.Range(-50, 50))
						bd := orb.Bound{Min: orb.Point{x0, y0}, Max: orb.Point{x0 + float64(r.Range(1, 9)), y0 + float64(r.Range(1, 9))}}
						rect := orb.Polygon{refmodel.BoundRing(bd)}
						mk := func(surface orb.Geometry) []orb.Geometry {
							return []orb.Geometry{
								orb.Collection{surface, cloneMP(mp)},
								orb.Collection{orb.Collection{surface, line}, cloneMP(mp)},
								orb.Collection{orb.Point{bx, by}, orb.Collection{orb.Collection{surface}}, clonePoly(mp[0])},
								orb.Collection{orb.Collection{line, surface}},
							}
						}
						withBound, withRect := mk(bd), mk(rect)
						for i := range withBound {
							bc, ba := planar.CentroidArea(withBound[i])
							rc, ra := planar.CentroidArea(withRect[i])
							c.Evals(2)
							_, sc := extentOf(models[0][0])
							if !relClose(ba, ra, 1e-12, 0) || !relClose(planar.Area(withBound[i]), ra, 1e-12, 0) || !(math.Abs(bc[0]-rc[0]) <= 1e-9*(sc+sz) && math.Abs(bc[1]-rc[1]) <= 1e-9*(sc+sz)) {
								c.Fail("", "a bound inside a collection does not count like the rectangle it denotes", map[string]interface{}{"collection": sv(withBound[i]), "area": ba, "centroid": sv(bc), "area_with_the_rectangle_as_polygon": ra, "centroid_with_the_rectangle_as_polygon": sv(rc)})
							}
						}
						if a := planar.Area(bd); a != (bd.Max[0]-bd.Min[0])*(bd.Max[1]-bd.Min[1]) {
							c.Fail("", "planar.Area(bound) is not width x height", map[string]interface{}{"bound": sv(bd), "got": a})
						}
					}
					// members without area (an empty polygon, a ring collapsed to a point or to two points, an outer ring cancelled
					// by an identical hole) weigh nothing, wherever they stand
					{
						pc := mp[0][0][0]
						cancel := orb.Polygon{cloneRing(mp[0][0]), cloneRing(mp[0][0])}
						zero := []orb.Polygon{{}, {orb.Ring{pc, pc, pc, pc}}, {orb.Ring{pc, {pc[0] + 3, pc[1] + 1}, pc}}, cancel, {orb.Ring{}}}
						baseC, baseA := planar.CentroidArea(mp)
						for _, pos := range []int{0, len(mp) / 2, len(mp)} {
							z := zero[r.Intn(len(zero))]
							var with orb.MultiPolygon
							with = append(with, cloneMP(mp[:pos])...)
							with = append(with, clonePoly(z))
							if r.Bool() {
								with = append(with, clonePoly(zero[r.Intn(len(zero))]))
							}
							with = append(with, cloneMP(mp[pos:])...)
							gc, ga := planar.CentroidArea(with)
							c.Eval()
							_, sc := extentOf(models[0][0])
							if !relClose(ga, baseA, 1e-12, 0) || !(math.Abs(gc[0]-baseC[0]) <= 1e-9*(sc+sz) && math.Abs(gc[1]-baseC[1]) <= 1e-9*(sc+sz)) {
								c.Fail("", "a member without area changes the area or centroid of a multi-polygon", map[string]interface{}{"multipolygon": sv(with), "position": pos, "got_centroid": sv(gc), "got_area": ga, "want_centroid": sv(baseC), "want_area": baseA})
							}
							zc := orb.Collection{clonePoly(z), cloneMP(mp)}
							if r.Bool() {
								zc = orb.Collection{cloneMP(mp), clonePoly(z), orb.Collection{clonePoly(zero[r.Intn(len(zero))])}}
							}
							cc, ca := planar.CentroidArea(zc)
							if !relClose(ca, baseA, 1e-12, 0) || !relClose(planar.Area(zc), baseA, 1e-12, 0) || !(math.Abs(cc[0]-baseC[0]) <= 1e-9*(sc+sz) && math.Abs(cc[1]-baseC[1]) <= 1e-9*(sc+sz)) {
								c.Fail("", "a member without area changes the area or centroid of a collection", map[string]interface{}{"collection": sv(zc), "got_centroid": sv(cc), "got_area": ca, "want_centroid": sv(baseC), "want_area": baseA})
							}
						}
					}
					// distance-from for polygons / multi-polygons / collections with the index
					for i := 0; i < 12; i++ {
						rings := models[r.Intn(len(models))]
						v := rings[r.Intn(len(rings))]
						p := v[r.Intn(len(v))]
						q := P{p[0] + float64(r.Range(-int(sz/4), int(sz/4))), p[1] + float64(r.Range(-int(sz/4), int(sz/4)))}
						if i%4 == 0 {
							q = p
						}
						qq := orb.Point{q[0], q[1]}
						best, bestI := math.Inf(1), -1
						_, sc := extentOf(append([]P{q}, models[0][0]...))
						for k, rs := range models {
							dk := math.Inf(1)
							for _, rr := range rs {
								dk = math.Min(dk, exactDist(q, rr, false))
							}
							if got := planar.DistanceFrom(mp[k], qq); !(math.Abs(got-dk) <= 1e-9*sc) {
								c.Fail("", "DistanceFrom(polygon, p) is not the minimum over all its rings' segments", map[string]interface{}{"polygon": sv(mp[k]), "point": q, "got": got, "want": dk})
							}
							c.Eval()
							if dk < best {
								best, bestI = dk, k
							}
						}
						got, gi := planar.DistanceFromWithIndex(mp, qq)
						c.Eval()
						if !(math.Abs(got-best) <= 1e-9*sc) {
							c.Fail("", "DistanceFrom(multi-polygon, p) is not the minimum over its members", map[string]interface{}{"multipolygon": sv(mp), "point": q, "got": got, "want": best, "nearest_member": bestI})
						} else if gi < 0 || gi >= len(mp) || !(math.Abs(planar.DistanceFrom(mp[gi], qq)-got) <= 1e-9*sc) {
							c.Fail("", "DistanceFromWithIndex returned an index whose member is not at the returned distance", map[string]interface{}{"multipolygon": sv(mp), "point": q, "index": gi, "distance": got})
						}
						cg, ci := planar.DistanceFromWithIndex(orb.Collection{orb.Point{bx - 1e6, by}, cloneMP(mp)}, qq)
						if !(math.Abs(cg-best) <= 1e-9*sc) || ci != 1 {
							c.Fail("", "DistanceFromWithIndex on a collection is not the minimum over its members", map[string]interface{}{"point": q, "got": cg, "index": ci, "want": best})
						}
					}
					// "the minimum over all boundary segments", whatever the rings are to each other: members whose second and
					// later rings are arbitrary integer rings (not nested in the first, overlapping, far away), some rings unclosed
					{
						var loose orb.MultiPolygon
						var segsOf [][][]P
						for k := r.Range(1, 3); k > 0; k-- {
							var pg orb.Polygon
							var rs [][]P
							for j := r.Range(1, 3); j > 0; j-- {
								open := c10intRing(r)
								v := gen.Close(open)
								if r.P(1, 3) {
									v = open // the ring as given: no closing segment
								}
								pg = append(pg, pToRing(v))
								rs = append(rs, v)
							}
							loose = append(loose, pg)
							segsOf = append(segsOf, rs)
						}
						for t := 0; t < 8; t++ {
							rs := segsOf[r.Intn(len(segsOf))]
							v := rs[r.Intn(len(rs))]
							p := v[r.Intn(len(v))]
							q := P{p[0] + float64(r.Range(-3000, 3000)), p[1] + float64(r.Range(-3000, 3000))}
							if t%4 == 0 {
								q = P{p[0] + float64(r.Range(-1<<21, 1<<21)), p[1] + float64(r.Range(-1<<21, 1<<21))} // far outside every bound
							}
							best := math.Inf(1)
							for _, rs := range segsOf {
								for _, rr := range rs {
									best = math.Min(best, exactDist(q, rr, false))
								}
							}
							got, gi := planar.DistanceFromWithIndex(loose, orb.Point{q[0], q[1]})
							c.Eval()
							if !(math.Abs(got-best) <= 1e-9*(1<<22)) || gi < 0 || gi >= len(loose) {
								c.Fail("", "DistanceFrom(multi-polygon) is not the minimum over all boundary segments of all rings of all members", map[string]interface{}{"multipolygon": sv(loose), "point": q, "got": got, "index": gi, "want": best})
								break
							}
						}
					}
					c.Nontrivial(h.Mix(hashP(models[0][0]), uint64(np)))
					c.Sample(map[string]interface{}{"multipolygon": sv(mp), "exact_area": wantM})
				},
			},
			{
				Name: "lower-dimensions", Count: h.Fixed(5000, 500000),
				Run: func(c *h.Ctx, idx uint64, r *h.Rand) {
					// multi point: count weighted; line strings: length weighted
					n := r.Range(1, 8)
					mpt := make(orb.MultiPoint, n)
					sx, sy := 0.0, 0.0
					for i := range mpt {
						mpt[i] = orb.Point{float64(r.Range(-50, 50)), float64(r.Range(-50, 50))}
						sx, sy = sx+mpt[i][0], sy+mpt[i][1]
					}
					ctr, a := planar.CentroidArea(mpt)
					c.Eval()
					if a != 0 || !(math.Abs(ctr[0]-sx/float64(n)) <= 1e-9 && math.Abs(ctr[1]-sy/float64(n)) <= 1e-9) {
						c.Fail("", "multi-point centroid is not the mean of the points", map[string]interface{}{"points": sv(mpt), "got": sv(ctr)})
					}
					// one point: its own centroid, no area, no length; points have no length and no area in any number
					{
						p := mpt[0]
						pc, pa := planar.CentroidArea(p)
						c.Evals(4)
						if pc != p || pa != 0 || planar.Area(p) != 0 || planar.Area(mpt) != 0 {
							c.Fail("", "a point (or multi point) does not have itself as centroid and area 0", map[string]interface{}{"point": sv(p), "centroid": sv(pc), "centroid_area": pa, "area": planar.Area(p), "multi_point_area": planar.Area(mpt)})
						}
						if l1, l2 := planar.Length(p), planar.Length(mpt); l1 != 0 || l2 != 0 {
							c.Fail("", "the length of a point or multi point is not 0", map[string]interface{}{"point": l1, "multi_point": l2})
						}
						if l := planar.Length(orb.Collection{p, mpt, orb.LineString{{0, 0}, {3, 4}}}); l != 5 {
							c.Fail("", "the length of a collection is not the sum over its members (points count 0)", map[string]interface{}{"got": l, "want": 5})
						}
					}
					dq := orb.Point{float64(r.Range(-60, 60)), float64(r.Range(-60, 60))}
					gd, gi := planar.DistanceFromWithIndex(mpt, dq)
					best := math.Inf(1)
					for _, p := range mpt {
						best = math.Min(best, math.Hypot(p[0]-dq[0], p[1]-dq[1]))
					}
					if !(math.Abs(gd-best) <= 1e-9) || gi < 0 || gi >= n || !(math.Abs(math.Hypot(mpt[gi][0]-dq[0], mpt[gi][1]-dq[1])-gd) <= 1e-9) {
						c.Fail("", "DistanceFromWithIndex(multi-point) wrong", map[string]interface{}{"points": sv(mpt), "query": sv(dq), "got": gd, "index": gi})
					}
					// multi line string with members of positive length and (sometimes) zero length
					nl := r.Range(1, 4)
					var mls orb.MultiLineString
					wx, wy, wl := 0.0, 0.0, 0.0
					bx, by, bw := 0.0, 0.0, 0.0 // what "zero-length members weigh 1" would give
					hasZero, hasPos := false, false
					for k := 0; k < nl; k++ {
						m := r.Range(2, 6)
						ls := make(orb.LineString, m)
						for i := range ls {
							ls[i] = orb.Point{float64(r.Range(-50, 50)), float64(r.Range(-50, 50))}
						}
						if r.P(1, 5) {
							ls = ls[:1]
						} else if r.P(1, 8) {
							for i := range ls {
								ls[i] = ls[0]
							}
						}
						mls = append(mls, ls)
						l, cx, cy := 0.0, 0.0, 0.0
						for i := 0; i+1 < len(ls); i++ {
							d := math.Hypot(ls[i+1][0]-ls[i][0], ls[i+1][1]-ls[i][1])
							l += d
							cx += d * (ls[i][0] + ls[i+1][0]) / 2
							cy += d * (ls[i][1] + ls[i+1][1]) / 2
						}
						wx, wy, wl = wx+cx, wy+cy, wl+l
						if l == 0 {
							hasZero = true
							bx, by = bx+ls[0][0], by+ls[0][1]
						} else {
							hasPos = true
							bx, by, bw = bx+cx, by+cy, bw+l
						}
					}
					ctr, _ = planar.CentroidArea(mls)
					c.Eval()
					if wl > 0 {
						want := orb.Point{wx / wl, wy / wl}
						if !(math.Abs(ctr[0]-want[0]) <= 1e-9*100 && math.Abs(ctr[1]-want[1]) <= 1e-9*100) {
							key := "" // (was the finding fixed by c433f62; the witness stays a regression case)
							_, _, _ = bx, by, bw
							_, _ = hasZero, hasPos
							c.Fail(key, "multi line string centroid is not the length-weighted mean", map[string]interface{}{"lines": sv(mls), "got": sv(ctr), "want": sv(want)})
						}
						// the same members as a collection of lines: length weighted too
						var coll orb.Collection
						for i, ls := range mls {
							if i > 0 && r.Bool() {
								// nested: the member is itself a collection of lines (weighted by its total length)
								coll = append(coll, orb.Collection{ls})
							} else if i > 0 && r.P(1, 3) && len(coll) > 0 {
								if inner, ok := coll[len(coll)-1].(orb.Collection); ok {
									coll[len(coll)-1] = append(inner, ls)
								} else {
									coll = append(coll, orb.MultiLineString{ls})
								}
							} else {
								coll = append(coll, ls)
							}
						}
						cc, _ := planar.CentroidArea(coll)
						c.Eval()
						if !(math.Abs(cc[0]-want[0]) <= 1e-9*100 && math.Abs(cc[1]-want[1]) <= 1e-9*100) {
							key := "" // (was the finding fixed by b6f9610)
							c.Fail(key, "centroid of a collection of lines is not the length-weighted mean", map[string]interface{}{"collection": sv(coll), "got": sv(cc), "want": sv(want)})
						}
					}
					// a geometry without any vertex is infinitely far away and has no nearest member
					for name, g := range map[string]orb.Geometry{
						"empty multi line string": orb.MultiLineString{}, "multi line string of empty lines": orb.MultiLineString{{}, {}}, "empty multi polygon": orb.MultiPolygon{},
						"multi polygon of an empty polygon": orb.MultiPolygon{{}}, "empty multi point": orb.MultiPoint{}, "empty line string": orb.LineString{}, "empty polygon": orb.Polygon{},
						"collection of empty members": orb.Collection{orb.MultiPolygon{}, orb.LineString{}}, "empty collection": orb.Collection{},
					} {
						gd, gi := planar.DistanceFromWithIndex(g, dq)
						c.Eval()
						if !math.IsInf(gd, 1) || gi != -1 || !math.IsInf(planar.DistanceFrom(g, dq), 1) {
							c.Fail("", "DistanceFromWithIndex of a geometry without vertices is not (+Inf, -1) ("+name+")", map[string]interface{}{"value": sv(g), "distance": gd, "index": gi})
						}
					}
					// empty lines among the members of a multi line string have no position: they do not move its centroid
					{
						a, bq := orb.Point{float64(r.Range(-50, 50)), float64(r.Range(-50, 50))}, orb.Point{float64(r.Range(-50, 50)), float64(r.Range(-50, 50))}
						for name, tc := range map[string]struct {
							g    orb.MultiLineString
							want orb.Point
						}{
							"an empty line and a one-point line":           {orb.MultiLineString{{}, {a}}, a},
							"a one-point line between two empty lines":     {orb.MultiLineString{{}, {a, a}, nil}, a},
							"empty lines around a line of positive length": {orb.MultiLineString{{}, {a, bq}, {}}, orb.Point{(a[0] + bq[0]) / 2, (a[1] + bq[1]) / 2}},
						} {
							if a == bq {
								continue
							}
							gc, _ := planar.CentroidArea(tc.g)
							c.Eval()
							if !(math.Abs(gc[0]-tc.want[0]) <= 1e-9 && math.Abs(gc[1]-tc.want[1]) <= 1e-9) {
								c.Fail("", "an empty line among the members moves the centroid of a multi line string ("+name+")", map[string]interface{}{"lines": sv(tc.g), "got": sv(gc), "want": sv(tc.want)})
							}
						}
					}
					// lines whose vertices all coincide are still there for DistanceFrom: at the distance of their point
					{
						dp := orb.Point{float64(r.Range(-50, 50)), float64(r.Range(-50, 50))}
						wantP := math.Hypot(dp[0]-dq[0], dp[1]-dq[1])
						far := orb.LineString{{dq[0] + 500, dq[1] + 500}, {dq[0] + 600, dq[1] + 500}}
						for name, g := range map[string]orb.Geometry{
							"line string of two equal points":      orb.LineString{dp, dp},
							"line string of three equal points":    orb.LineString{dp, dp, dp},
							"ring of equal points":                 orb.Ring{dp, dp, dp, dp},
							"multi line string (degenerate first)": orb.MultiLineString{{dp, dp}, far},
							"multi line string (degenerate last)":  orb.MultiLineString{far, {dp, dp, dp}},
							"collection":                           orb.Collection{far, orb.LineString{dp, dp}},
							"polygon with a collapsed hole":        orb.Polygon{orb.Ring(append(append(orb.LineString{}, far...), far[0])), orb.Ring{dp, dp, dp, dp}},
						} {
							got := planar.DistanceFrom(g, dq)
							c.Eval()
							if !(math.Abs(got-wantP) <= 1e-9*(1+wantP)) {
								c.Fail("", "DistanceFrom ignores a part whose vertices all coincide ("+name+")", map[string]interface{}{"value": sv(g), "point": sv(dq), "got": got, "want": wantP})
							}
						}
					}
					if l, want := planar.Length(mls), wl; !relClose(l, want, 1e-12, 0) {
						c.Fail("", "multi line string length is not the sum of the segment lengths", map[string]interface{}{"lines": sv(mls), "got": l, "want": want})
					}
					// a collection of points: count weighted. The points are dealt out in runs of 1..4; a run is a point, a multi
					// point, or a nested collection (one or two levels) of points and multi points: it weighs as many points as it holds
					var pc orb.Collection
					for i := 0; i < len(mpt); {
						k := 1
						if i > 0 && r.P(1, 2) {
							k = r.Range(1, 4)
							if k > len(mpt)-i {
								k = len(mpt) - i
							}
						}
						run := append(orb.MultiPoint(nil), mpt[i:i+k]...)
						switch {
						case i > 0 && r.P(1, 3):
							inner := orb.Collection{}
							switch r.Range(0, 2) {
							case 0:
								inner = append(inner, run) // one multi point of k points
							case 1:
								inner = append(inner, run[0])
								if k > 1 {
									inner = append(inner, run[1:])
								}
							default:
								inner = append(inner, orb.Collection{run}) // two levels down
							}
							pc = append(pc, inner)
						case i > 0 && (k > 1 || r.P(1, 3)):
							pc = append(pc, run)
						default:
							k = 1
							pc = append(pc, mpt[i])
						}
						i += k
					}
					cc, _ := planar.CentroidArea(pc)
					c.Eval()
					if !(math.Abs(cc[0]-sx/float64(n)) <= 1e-9 && math.Abs(cc[1]-sy/float64(n)) <= 1e-9) {
						key := "" // (was the finding fixed by b6f9610)
						c.Fail(key, "centroid of a collection of points is not the mean of the points", map[string]interface{}{"collection": sv(pc), "got": sv(cc), "want": []float64{sx / float64(n), sy / float64(n)}})
					}
					c.Nontrivial(h.Mix(hashPts(mpt), uint64(nl), hashPts(mls[0])))
					c.Sample(map[string]interface{}{"multipoint": sv(mpt), "multilinestring": sv(mls)})
				},
			},
			{
				// every segment between two points of the 5x5 integer grid [-2,2]^2 (degenerate ones included) against every
				// query point of the 7x7 grid [-3,3]^2, and the same segment as a two-vertex line string and as the only edge
				// that matters of a ring: unit steps, axis-parallel and diagonal segments, queries at, beside and beyond the ends
				Name: "grid-segments-exhaustive", Count: h.Fixed(625, 625), Exhaustive: h.Always,
				Run: func(c *h.Ctx, idx uint64, r *h.Rand) {
					a := P{float64(int(idx)%5 - 2), float64(int(idx)/5%5 - 2)}
					b := P{float64(int(idx)/25%5 - 2), float64(int(idx)/125%5 - 2)}
					for qx := -3; qx <= 3; qx++ {
						for qy := -3; qy <= 3; qy++ {
							q := P{float64(qx), float64(qy)}
							want2 := exact.F(exact.Dist2PointSeg(q, a, b))
							got2 := planar.DistanceFromSegmentSquared(orb.Point{a[0], a[1]}, orb.Point{b[0], b[1]}, orb.Point{q[0], q[1]})
							got := planar.DistanceFromSegment(orb.Point{a[0], a[1]}, orb.Point{b[0], b[1]}, orb.Point{q[0], q[1]})
							ls := planar.DistanceFrom(orb.LineString{{a[0], a[1]}, {b[0], b[1]}}, orb.Point{q[0], q[1]})
							c.Evals(3)
							if !(math.Abs(got2-want2) <= 1e-12*(1+want2)) || !(math.Abs(got-math.Sqrt(want2)) <= 1e-12*(1+want2)) || !(math.Abs(ls-math.Sqrt(want2)) <= 1e-12*(1+want2)) {
								c.Fail("", "distance from a grid segment is not the exact point-segment distance", map[string]interface{}{"a": a, "b": b, "point": q, "squared": got2, "distance": got, "as_line_string": ls, "want_squared": want2})
								return
							}
							if want2 == 0 && (got2 != 0 || got != 0 || ls != 0) {
								c.Fail("", "distance from a segment is not exactly zero for a lattice point on it", map[string]interface{}{"a": a, "b": b, "point": q, "squared": got2})
								return
							}
						}
					}
					if a != b {
						c.Nontrivial(h.Mix(idx, 77))
					}
				},
			},
			{
				Name: "float-rings", Count: h.Fixed(5000, 500000),
				Run: func(c *h.Ctx, idx uint64, r *h.Rand) {
					sc := math.Pow(10, float64(r.Range(-3, 5)))
					ox, oy := r.Uniform(-10, 10)*sc, r.Uniform(-10, 10)*sc
					if r.P(1, 3) {
						// a small ring far from the origin (the shoelace must not lose it to cancellation)
						sc = r.Uniform(1, 100)
						ox, oy = r.Uniform(-1, 1)*math.Pow(10, float64(r.Range(5, 8))), r.Uniform(-1, 1)*math.Pow(10, float64(r.Range(5, 8)))
						c.Count("far_from_origin_rings", 1)
					}
					nv := r.Range(3, 12)
					if r.P(1, 3) {
						nv = r.Range(13, 48) // beyond any small-input threshold, with float coordinates and distances below 1
						c.Count("float_rings_of_more_than_12_vertices", 1)
					}
					open := gen.Star(r, nv, ox, oy, 0.3*sc, sc, 0)
					closed := gen.Close(open)
					ring := pToRing(closed)
					cxE, cyE, a2 := exactCentroid(open)
					wantA := exact.F(new(big.Rat).Quo(a2, big.NewRat(2, 1)))
					ctr, area := planar.CentroidArea(ring)
					c.Eval()
					ext, scale := extentOf(open)
					if a := planar.Area(ring); !(math.Abs(a-wantA) <= 1e-9*math.Abs(wantA)+1e-13*ext*ext) {
						c.Fail("", "planar.Area of a float ring is not within 1e-9 of the exact value", map[string]interface{}{"ring": closed, "got": a, "want": wantA})
					}
					// cancellation in the float shoelace is bounded by eps * extent^2 per term
					if !(math.Abs(area-wantA) <= 1e-9*math.Abs(wantA)+1e-13*ext*ext) {
						c.Fail("", "planar area of a float ring is not within 1e-9 of the exact value", map[string]interface{}{"ring": closed, "got": area, "want": wantA})
					}
					tol := 1e-9*scale + 1e-13*ext*(ext*ext/math.Abs(wantA))
					if !(math.Abs(ctr[0]-cxE) <= tol && math.Abs(ctr[1]-cyE) <= tol) {
						c.Fail("", "centroid of a float ring is not within tolerance of the exact value", map[string]interface{}{"ring": closed, "got": sv(ctr), "want": []float64{cxE, cyE}})
					}
					if l, want := planar.Length(ring), exactLen(closed, false); !relClose(l, want, 1e-9, 0) {
						c.Fail("", "planar.Length of a float ring is not within 1e-9", map[string]interface{}{"ring": closed, "got": l, "want": want})
					}
					for i := 0; i < 6; i++ {
						q := P{open[0][0] + r.Uniform(-2, 2)*sc, open[0][1] + r.Uniform(-2, 2)*sc}
						got, want := planar.DistanceFrom(ring, orb.Point{q[0], q[1]}), exactDist(q, closed, false)
						c.Eval()
						if !(math.Abs(got-want) <= 1e-9*(scale+math.Abs(q[0])+math.Abs(q[1]))) {
							c.Fail("", "DistanceFrom on a float ring is not within 1e-9", map[string]interface{}{"ring": closed, "point": q, "got": got, "want": want})
						}
						a, b := open[i%len(open)], open[(i+1)%len(open)]
						if gs, ws := planar.DistanceFromSegment(orb.Point{a[0], a[1]}, orb.Point{b[0], b[1]}, orb.Point{q[0], q[1]}), exact.SqrtRat(exact.Dist2PointSeg(q, a, b)); !(math.Abs(gs-ws) <= 1e-9*(scale+math.Abs(q[0])+math.Abs(q[1]))) {
							c.Fail("", "DistanceFromSegment is not the exact point-segment distance", map[string]interface{}{"a": a, "b": b, "point": q, "got": gs, "want": ws})
						}
					}
					c.Nontrivial(hashP(open))
					c.Sample(map[string]interface{}{"ring": closed, "exact_area": wantA})
				},
			},
			{
				// many vertices / many members: sizes around powers of two and other likely thresholds
				Name: "large-inputs", Count: h.Fixed(120, 12000), BudgetSec: 60,
				Run: func(c *h.Ctx, idx uint64, r *h.Rand) {
					n := c10sizes[r.Intn(len(c10sizes))]
					if r.P(1, 4) {
						n = r.Range(60, 5000)
					}
					bx, by := float64(r.Range(-100000, 100000)), float64(r.Range(-100000, 100000))
					var open []P
					if r.Bool() {
						// star-shaped: evenly spread jittered angles, integer-snapped
						open = make([]P, n)
						for i := range open {
							a := 2 * math.Pi * (float64(i) + r.Uniform(0.1, 0.9)) / float64(n)
							rad := r.Uniform(1000, 5000)
							open[i] = P{bx + math.Round(rad*math.Cos(a)), by + math.Round(rad*math.Sin(a))}
						}
					} else {
						// a closed lattice walk: arbitrary (self-crossing) vertex list with non-uniform segments
						open = make([]P, n)
						for i := range open {
							open[i] = P{bx + float64(r.Range(-5000, 5000)), by + float64(r.Range(-5000, 5000))}
						}
					}
					closed := gen.Close(open)
					ring := pToRing(closed)
					d := func() map[string]interface{} {
						return map[string]interface{}{"vertices": n, "first": closed[:4], "hash": hashP(open)}
					}
					cxE, cyE, a2 := exactCentroid(open)
					wantA := exact.F(new(big.Rat).Quo(a2, big.NewRat(2, 1)))
					ext, scale := extentOf(open)
					ctr, area := planar.CentroidArea(ring)
					c.Eval()
					if area != wantA || planar.Area(ring) != wantA || planar.Area(orb.Polygon{ring}) != math.Abs(wantA) {
						c.Fail("", "planar area of a large integer ring differs from the exact shoelace value", map[string]interface{}{"case": d(), "got": area, "want": wantA})
					}
					if a2.Sign() != 0 {
						tol := 1e-9*scale + 1e-12*float64(n)*ext*(ext*ext/math.Abs(wantA))
						if !(math.Abs(ctr[0]-cxE) <= tol && math.Abs(ctr[1]-cyE) <= tol) {
							c.Fail("", "centroid of a large ring differs from the exact area-weighted mean", map[string]interface{}{"case": d(), "got": sv(ctr), "want": []float64{cxE, cyE}, "tol": tol})
						}
					}
					for t := 0; t < 3; t++ {
						k := 1 + r.Intn(n-1)
						rot := append(append([]P{}, open[k:]...), open[:k]...)
						rr := pToRing(gen.Close(rot))
						if a := planar.Area(rr); a != wantA {
							c.Fail("", "area of a large ring changes when it starts at another vertex", map[string]interface{}{"case": d(), "rotation": k, "got": a, "want": wantA})
						}
						if l, want := planar.Length(rr), exactLen(open, true); !relClose(l, want, 1e-11, 0) {
							c.Fail("", "length of a large ring changes when it starts at another vertex / is not the sum of its segments", map[string]interface{}{"case": d(), "rotation": k, "got": l, "want": want})
						}
						c.Evals(2)
					}
					if a := planar.Area(pToRing(gen.Close(gen.Reversed(open)))); a != -wantA {
						c.Fail("", "reversing a large ring does not negate the area exactly", map[string]interface{}{"case": d(), "got": a, "want": -wantA})
					}
					wantL := exactLen(closed, false)
					for name, got := range map[string]float64{"ring": planar.Length(ring), "line string": planar.Length(orb.LineString(ring)), "polygon": planar.Length(orb.Polygon{ring}), "multi line string": planar.Length(orb.MultiLineString{orb.LineString(ring)}), "collection": planar.Length(orb.Collection{orb.LineString(ring)})} {
						c.Eval()
						if !relClose(got, wantL, 1e-11, 0) {
							c.Fail("", "planar.Length of a large "+name+" differs from the exact sum of segment lengths", map[string]interface{}{"case": d(), "got": got, "want": wantL})
						}
					}
					// open line: a prefix of the walk, length and length-weighted centroid
					m := 2 + r.Intn(n-1)
					ls := orb.LineString(ring[:m])
					if got, want := planar.Length(ls), exactLen(closed[:m], false); !relClose(got, want, 1e-11, 0) {
						c.Fail("", "planar.Length of a long line string differs from the exact sum of segment lengths", map[string]interface{}{"case": d(), "prefix": m, "got": got, "want": want})
					}
					wx, wy, wl := 0.0, 0.0, 0.0
					for i := 0; i+1 < m; i++ {
						dl := math.Hypot(ls[i+1][0]-ls[i][0], ls[i+1][1]-ls[i][1])
						wl += dl
						wx += dl * ((ls[i][0]+ls[i+1][0])/2 - bx)
						wy += dl * ((ls[i][1]+ls[i+1][1])/2 - by)
					}
					if wl > 0 {
						lc, _ := planar.CentroidArea(ls)
						c.Eval()
						if !(math.Abs(lc[0]-(bx+wx/wl)) <= 1e-9*scale && math.Abs(lc[1]-(by+wy/wl)) <= 1e-9*scale) {
							c.Fail("", "centroid of a long line string is not the length-weighted mean", map[string]interface{}{"case": d(), "prefix": m, "got": sv(lc), "want": []float64{bx + wx/wl, by + wy/wl}})
						}
					}
					// the vertices as a multi point: count-weighted mean; nearest vertex
					mpt := orb.MultiPoint(ring[:n])
					sx, sy := 0.0, 0.0
					for _, p := range mpt {
						sx, sy = sx+(p[0]-bx), sy+(p[1]-by)
					}
					pc, _ := planar.CentroidArea(mpt)
					c.Eval()
					if !(math.Abs(pc[0]-(bx+sx/float64(n))) <= 1e-9*scale && math.Abs(pc[1]-(by+sy/float64(n))) <= 1e-9*scale) {
						c.Fail("", "centroid of a large multi point is not the mean of its points", map[string]interface{}{"case": d(), "got": sv(pc)})
					}
					for t := 0; t < 5; t++ {
						v := open[r.Intn(n)]
						q := P{v[0] + float64(r.Range(-40, 40)), v[1] + float64(r.Range(-40, 40))}
						if t == 0 {
							q = v
						}
						got, want := planar.DistanceFrom(ring, orb.Point{q[0], q[1]}), exactDist(q, closed, false)
						c.Eval()
						if !(math.Abs(got-want) <= 1e-9*scale) || (t == 0 && got != 0) {
							c.Fail("", "DistanceFrom on a large ring is not the minimum point-segment distance", map[string]interface{}{"case": d(), "point": q, "got": got, "want": want})
						}
						gd, gi := planar.DistanceFromWithIndex(mpt, orb.Point{q[0], q[1]})
						best := math.Inf(1)
						for _, p := range mpt {
							best = math.Min(best, math.Hypot(p[0]-q[0], p[1]-q[1]))
						}
						if !(math.Abs(gd-best) <= 1e-9*scale) || gi < 0 || gi >= n || !(math.Abs(math.Hypot(mpt[gi][0]-q[0], mpt[gi][1]-q[1])-best) <= 1e-9*scale) {
							c.Fail("", "DistanceFromWithIndex on a large multi point is not the nearest point", map[string]interface{}{"case": d(), "point": q, "got": gd, "index": gi, "want": best})
						}
					}
					// many members: k unit squares (area 1 each, alternating winding) and k short lines and points
					k := c10sizes[r.Intn(len(c10sizes))]
					if k > 1100 {
						k = 100 + r.Intn(1000)
					}
					mp := make(orb.MultiPolygon, k)
					coll := make(orb.Collection, 0, 3*k)
					cx, cy := 0.0, 0.0
					for i := range mp {
						x, y := bx+float64(r.Range(-5000, 5000)), by+float64(r.Range(-5000, 5000))
						sq := orb.Ring{{x, y}, {x + 1, y}, {x + 1, y + 1}, {x, y + 1}, {x, y}}
						if r.Bool() {
							sq.Reverse()
						}
						mp[i] = orb.Polygon{sq}
						cx, cy = cx+(x+0.5-bx), cy+(y+0.5-by)
						coll = append(coll, orb.Point{x, y})
						if r.Bool() {
							coll = append(coll, orb.LineString{{x, y}, {x + 3, y + 4}})
						}
						coll = append(coll, mp[i])
					}
					mc, ma := planar.CentroidArea(mp)
					cc, ca := planar.CentroidArea(coll)
					c.Evals(2)
					if ma != float64(k) || ca != float64(k) {
						c.Fail("", "area of many unit squares is not their number", map[string]interface{}{"members": k, "multi_polygon": ma, "collection": ca})
					}
					wantC := orb.Point{bx + cx/float64(k), by + cy/float64(k)}
					for name, got := range map[string]orb.Point{"multi polygon": mc, "collection with lower-dimensional members": cc} {
						if !(math.Abs(got[0]-wantC[0]) <= 1e-9*scale && math.Abs(got[1]-wantC[1]) <= 1e-9*scale) {
							c.Fail("", "centroid of a "+name+" of many unit squares is not the mean of their centres", map[string]interface{}{"members": k, "got": sv(got), "want": sv(wantC)})
						}
					}
					c.Nontrivial(h.Mix(uint64(n), uint64(k), hashP(open)))
					c.Max("vertices in one ring", float64(n), nil)
					c.Max("members in one multi polygon", float64(k), nil)
					c.Sample(map[string]interface{}{"vertices": n, "members": k, "exact_area": wantA})
				},
			},
		},
	})
}

var c10sizes = []int{63, 64, 65, 127, 128, 129, 255, 256, 257, 258, 511, 512, 513, 1023, 1024, 1025, 2047, 2048, 2049, 4095, 4096, 4097}
