package mon

import (
	"fmt"
	"math"

	"github.com/paulmach/orb"
	"github.com/paulmach/orb/encoding/mvt"
	"github.com/paulmach/orb/geo"
	"github.com/paulmach/orb/geojson"
	"github.com/paulmach/orb/planar"
	"github.com/paulmach/orb/simplify"

	"verif/internal/exact"
	"verif/internal/h"
	"verif/internal/refmodel"
)

// C12 — simplifiers only drop vertices, keep endpoints and honour their bound.

// isSubsequence: greedy left-to-right matching is a complete test, also with repeated vertices.
func isSubsequence(sub, full []orb.Point) bool {
	j := 0
	for _, p := range sub {
		for j < len(full) && full[j] != p {
			j++
		}
		if j == len(full) {
			return false
		}
		j++
	}
	return true
}

type c12simp struct {
	name string
	s    orb.Simplifier
	ls   func(orb.LineString) orb.LineString
	ring func(orb.Ring) orb.Ring
	poly func(orb.Polygon) orb.Polygon
	mp   func(orb.MultiPolygon) orb.MultiPolygon
	mls  func(orb.MultiLineString) orb.MultiLineString
}

// The simplifier types are plain structs with exported, documented fields: a program may take one from a constructor, write
// it as a literal, or set the fields of one it already has (a long-lived simplifier whose threshold follows the zoom). The
// configuration at the time of the call is what counts; c12way rotates through the ways of arriving at it.
var c12way int

func c12mkDP(t float64) *simplify.DouglasPeuckerSimplifier {
	c12way++
	switch c12way % 4 {
	case 0:
		return simplify.DouglasPeucker(t)
	case 1:
		return &simplify.DouglasPeuckerSimplifier{Threshold: t}
	case 2:
		s := simplify.DouglasPeucker(t*10 + 3)
		s.LineString(orb.LineString{{0, 0}, {1, 5}, {2, 0}})
		s.Threshold = t
		return s
	}
	s := &simplify.DouglasPeuckerSimplifier{}
	s.Threshold = t
	return s
}

func c12mkRadial(df orb.DistanceFunc, t float64) *simplify.RadialSimplifier {
	c12way++
	switch c12way % 4 {
	case 0:
		return simplify.Radial(df, t)
	case 1:
		return &simplify.RadialSimplifier{DistanceFunc: df, Threshold: t}
	case 2:
		s := simplify.Radial(func(a, b orb.Point) float64 { return 0 }, t*10+3)
		s.LineString(orb.LineString{{0, 0}, {1, 5}, {2, 0}})
		s.Threshold, s.DistanceFunc = t, df
		return s
	}
	s := &simplify.RadialSimplifier{}
	s.DistanceFunc, s.Threshold = df, t
	return s
}

func c12mkVis(t float64, keep int) *simplify.VisvalingamSimplifier {
	c12way++
	switch c12way % 5 {
	case 0:
		switch {
		case keep == 0:
			return simplify.VisvalingamThreshold(t)
		case t == math.MaxFloat64:
			return simplify.VisvalingamKeep(keep)
		}
		return simplify.Visvalingam(t, keep)
	case 1:
		return &simplify.VisvalingamSimplifier{Threshold: t, ToKeep: keep}
	case 2:
		s := simplify.Visvalingam(t/7, keep+3)
		s.LineString(orb.LineString{{0, 0}, {1, 5}, {2, 0}, {3, 5}, {4, 0}})
		s.Threshold, s.ToKeep = t, keep
		return s
	case 3:
		s := simplify.VisvalingamThreshold(t * 3)
		s.Threshold, s.ToKeep = t, keep
		return s
	}
	s := simplify.VisvalingamKeep(keep + 1)
	s.ToKeep, s.Threshold = keep, t
	return s
}

func c12dp(t float64) c12simp {
	s := c12mkDP(t)
	return c12simp{fmt.Sprintf("DouglasPeucker(%g)", t), s, s.LineString, s.Ring, s.Polygon, s.MultiPolygon, s.MultiLineString}
}
func c12radial(t float64) c12simp {
	s := c12mkRadial(planar.Distance, t)
	return c12simp{fmt.Sprintf("Radial(%g)", t), s, s.LineString, s.Ring, s.Polygon, s.MultiPolygon, s.MultiLineString}
}
func c12vis(s *simplify.VisvalingamSimplifier, name string) c12simp {
	return c12simp{name, s, s.LineString, s.Ring, s.Polygon, s.MultiPolygon, s.MultiLineString}
}

// c12common checks subsequence / endpoints / closedness.
func c12common(c *h.Ctx, name string, in, out []orb.Point, what string) bool {
	d := func() map[string]interface{} {
		return map[string]interface{}{"simplifier": name, "input": sv(in), "output": sv(out), "entry": what}
	}
	if len(in) == 0 {
		if len(out) != 0 {
			c.Fail("", "simplifying an empty geometry produced vertices", d())
			return false
		}
		return true
	}
	if !isSubsequence(out, in) {
		c.Fail("", "output is not a subsequence of the input vertices", d())
		return false
	}
	if len(out) == 0 || out[0] != in[0] || out[len(out)-1] != in[len(in)-1] {
		c.Fail("", "first or last vertex not kept", d())
		return false
	}
	if len(in) > 1 && in[0] == in[len(in)-1] && len(out) > 1 && out[0] != out[len(out)-1] {
		c.Fail("", "closed input did not stay closed", d())
		return false
	}
	if len(in) >= 2 && len(out) < 2 {
		// the first and the last vertex are two positions of the input, also when they are the same point
		c.Fail("", "first and last vertex not both kept (an input of two or more vertices came back as one)", d())
		return false
	}
	return true
}

func c12genLine(r *h.Rand) orb.LineString {
	if r.P(1, 14) {
		// closed vertex lists enclosing no area: out and back along one line, one point repeated, a symmetric bow tie
		ox, oy := float64(r.Range(-20, 20)), float64(r.Range(-20, 20))
		switch r.Intn(3) {
		case 0:
			k := r.Range(2, 6)
			dx, dy := float64(r.Range(-3, 3)), float64(r.Range(-3, 3))
			if dx == 0 && dy == 0 {
				dx = 1
			}
			var ls orb.LineString
			for i := 0; i <= k; i++ {
				ls = append(ls, orb.Point{ox + float64(i)*dx, oy + float64(i)*dy})
			}
			for i := k - 1; i >= 0; i-- {
				ls = append(ls, orb.Point{ox + float64(i)*dx, oy + float64(i)*dy})
			}
			return ls
		case 1:
			ls := make(orb.LineString, r.Range(2, 9))
			for i := range ls {
				ls[i] = orb.Point{ox, oy}
			}
			return ls
		default:
			a, b := float64(r.Range(1, 9)), float64(r.Range(1, 9))
			ls := orb.LineString{{ox, oy}, {ox + a, oy + b}, {ox + a, oy}, {ox, oy + b}, {ox, oy}}
			if r.Bool() {
				ls = orb.LineString{{ox, oy}, {ox + a/2, oy + b/2}, {ox + a, oy + b}, {ox + a, oy}, {ox + a/2, oy + b/2}, {ox, oy + b}, {ox, oy}}
			}
			return ls
		}
	}
	if r.P(1, 40) {
		// shapes on which the farthest vertex of every range sits next to the range's start, so that the recursion of
		// Douglas-Peucker gets as deep as the line is long: a zigzag of decaying amplitude, an inward spiral
		m := r.Range(70, 400)
		ls := make(orb.LineString, m)
		amp, decay := r.Uniform(50, 500), r.Uniform(0.93, 0.995)
		spiral := r.Bool()
		for i := range ls {
			if spiral {
				a := float64(i) * r.Uniform(0.5, 0.7)
				ls[i] = orb.Point{amp * math.Cos(a), amp * math.Sin(a)}
			} else {
				s := 1.0
				if i%2 == 1 {
					s = -1
				}
				ls[i] = orb.Point{float64(i), s * amp}
			}
			amp *= decay
		}
		return ls
	}
	n := r.Range(0, 40)
	if r.P(1, 10) {
		n = r.Range(40, 200)
	}
	if r.P(1, 10) {
		n = r.Range(0, 4)
	}
	if r.P(1, 80) {
		n = []int{255, 256, 257, 511, 512, 513, 1023, 1025, 2049}[r.Intn(9)] // many vertices
	}
	integer := r.Bool()
	ls := make(orb.LineString, 0, n)
	x, y := 0.0, 0.0
	dx, dy := 1.0, 0.0
	for i := 0; i < n; i++ {
		switch r.Intn(8) {
		case 0: // repeat
		case 1: // continue collinear
			x, y = x+dx, y+dy
		case 2: // reverse (out-and-back spur)
			dx, dy = -dx, -dy
			x, y = x+dx*r.Uniform(0.2, 3), y+dy*r.Uniform(0.2, 3)
		default:
			dx, dy = r.Uniform(-3, 3), r.Uniform(-3, 3)
			x, y = x+dx, y+dy
		}
		if integer {
			ls = append(ls, orb.Point{math.Round(x), math.Round(y)})
		} else {
			ls = append(ls, orb.Point{x, y})
		}
	}
	if len(ls) > 2 && r.P(1, 6) {
		ls[len(ls)-1] = ls[0] // coincident endpoints
	}
	if r.P(1, 16) {
		// astronomically large but finite coordinates (squares and areas stay far below the float64 range)
		k := math.Pow(10, float64(r.Range(19, 60)))
		for i := range ls {
			ls[i] = orb.Point{ls[i][0] * k, ls[i][1] * k}
		}
		return ls
	}
	if r.P(1, 6) {
		// projected-metre scale: large offsets, long chords
		ox, oy, k := r.Uniform(-2e7, 2e7), r.Uniform(-2e7, 2e7), math.Pow(10, float64(r.Range(0, 5)))
		for i := range ls {
			ls[i] = orb.Point{ox + ls[i][0]*k, oy + ls[i][1]*k}
		}
	}
	return ls
}

func c12threshold(r *h.Rand, ls orb.LineString) float64 {
	diam := 1.0
	if len(ls) > 0 {
		b := ls.Bound()
		diam = math.Hypot(b.Max[0]-b.Min[0], b.Max[1]-b.Min[1]) + 1
	}
	switch r.Intn(9) {
	case 0:
		return 0
	case 1:
		return 1e-12
	case 7:
		return []float64{0.1, 0.5, 1}[r.Intn(3)]
	case 8:
		return diam * 1e-7
	case 2:
		return diam * 2
	case 3:
		return math.Inf(1)
	case 4:
		return float64(r.Range(1, 4))
	default:
		return r.Uniform(0, diam/2)
	}
}

func c12dpBound(c *h.Ctx, name string, in, out orb.LineString, t float64) {
	if len(out) < 2 || math.IsInf(t, 1) {
		return
	}
	op := lsToP(out)
	ext := 0.0
	if len(in) > 0 {
		b := in.Bound()
		ext = math.Hypot(b.Max[0]-b.Min[0], b.Max[1]-b.Min[1])
	}
	lim := t*(1+1e-9) + 1e-12 + 1e-13*ext
	for _, v := range in {
		d := exact.DistToPolyline(P{v[0], v[1]}, op, false)
		if d > lim {
			c.Fail("", "Douglas-Peucker left an input vertex farther than the threshold from the simplified line", map[string]interface{}{"simplifier": name, "input": sv(in), "output": sv(out), "vertex": sv(v), "distance": d})
			return
		}
	}
}

func init() {
	h.Register(&h.Monitor{
		ID: "C12",
		Rule: "random lines and rings of 0..200 vertices (random walks with repeated vertices, collinear runs, out-and-back spurs, coincident endpoints; integer and float coordinates) through DouglasPeucker, Radial, Visvalingam/VisvalingamThreshold/VisvalingamKeep with thresholds {0, 1e-12, random, > diameter, +Inf} and minimum counts 2..10, typed and generic entry points, polygons/multi-polygons/collections/mvt layers; one simplifier value is reused across kinds. " +
			"non-trivial = input has more than 2 vertices and at least one configuration dropped a vertex; distinct = hash of the input vertices",
		MinNontrivial: h.Fixed(8000, 500000),
		Assumptions:   []string{"Douglas-Peucker bound checked with float point-segment distances within a relative 1e-9"},
		Subs: []h.Sub{
			{
				Name: "lines-and-rings", Count: h.Fixed(20000, 5000000),
				Run: func(c *h.Ctx, idx uint64, r *h.Rand) {
					in := c12genLine(r)
					c.Note([]byte(sv(in)))
					dropped := false
					t1 := c12threshold(r, in)
					t2 := c12threshold(r, in)
					if t1 > t2 {
						t1, t2 = t2, t1
					}
					// --- Douglas-Peucker
					for _, asRing := range []bool{false, true} {
						var outs [2]orb.LineString
						for k, t := range []float64{t1, t2} {
							s := c12dp(t)
							var out orb.LineString
							if asRing {
								out = orb.LineString(s.ring(orb.Ring(cloneLS(in))))
							} else {
								out = s.ls(cloneLS(in))
							}
							c.Eval()
							outs[k] = out
							if !c12common(c, s.name, in, out, fmt.Sprintf("ring=%v", asRing)) {
								continue
							}
							dropped = dropped || len(out) < len(in)
							c12dpBound(c, s.name, in, out, t)
							again := s.ls(cloneLS(out))
							c.Eval()
							if !bitsEqualPts(again, out) {
								c.Fail("", "Douglas-Peucker is not idempotent", map[string]interface{}{"simplifier": s.name, "input": sv(in), "once": sv(out), "twice": sv(again)})
							}
							g := s.s.Simplify(cloneLS(in))
							c.Eval()
							if !asRing {
								if gl, ok := g.(orb.LineString); (len(out) == 0) != (g == nil) || (ok && !bitsEqualPts(gl, out)) || (g != nil && !ok) {
									c.Fail("", "generic Simplify(LineString) differs from the typed method", map[string]interface{}{"simplifier": s.name, "input": sv(in), "typed": sv(out), "generic": sv(g)})
								}
							}
						}
						if !isSubsequence(outs[1], outs[0]) {
							c.Fail("", "Douglas-Peucker: a larger threshold kept a vertex a smaller one dropped", map[string]interface{}{"input": sv(in), "t1": t1, "t2": t2, "out1": sv(outs[0]), "out2": sv(outs[1])})
						}
					}
					// --- generic entry point on a bare ring (and a ring inside a collection) equals the typed Ring method
					for _, s := range []c12simp{c12dp(t1), c12radial(t1), c12vis(c12mkVis(t2*t2, 0), "VisvalingamThreshold"), c12vis(c12mkVis(t2*t2, r.Range(2, 6)), "Visvalingam(keep)")} {
						want := s.ring(orb.Ring(cloneLS(in)))
						g := s.s.Simplify(orb.Ring(cloneLS(in)))
						gc := s.s.Simplify(orb.Collection{orb.Ring(cloneLS(in))})
						c.Evals(2)
						okG := (len(want) == 0 && g == nil)
						if rg, ok := g.(orb.Ring); ok {
							okG = bitsEqualPts(rg, want)
						}
						if !okG {
							c.Fail("", "generic Simplify(Ring) differs from the typed Ring method", map[string]interface{}{"simplifier": s.name, "input": sv(in), "typed": sv(want), "generic": sv(g)})
						}
						if cc, ok := gc.(orb.Collection); ok && len(cc) == 1 {
							rg, isRing := cc[0].(orb.Ring)
							if !((len(want) == 0 && cc[0] == nil) || (isRing && bitsEqualPts(rg, want))) {
								c.Fail("", "generic Simplify(Collection{Ring}) differs from the typed Ring method", map[string]interface{}{"simplifier": s.name, "input": sv(in), "typed": sv(want), "generic": sv(gc)})
							}
						}
					}
					// --- Radial with other distance functions: the gap rule is in the caller's metric
					for _, rs := range []struct {
						name string
						s    *simplify.RadialSimplifier
					}{{"Radial(planar.DistanceSquared)", c12mkRadial(planar.DistanceSquared, t1*t1)}, {"Radial(geo.Distance)", c12mkRadial(geo.Distance, 100+t1*1000)}} {
						lin := cloneLS(in)
						if rs.name == "Radial(geo.Distance)" {
							// lon/lat line near the antimeridian / a pole
							lin = lin[:0]
							lon, lat := []float64{179.9, -179.9, 10}[r.Intn(3)], []float64{0, 60, 89.5}[r.Intn(3)]
							for i := 0; i < len(in); i++ {
								lon += r.Uniform(-0.002, 0.002)
								lat += r.Uniform(-0.001, 0.001)
								if lon > 180 {
									lon -= 360
								} else if lon < -180 {
									lon += 360
								}
								lin = append(lin, orb.Point{lon, math.Min(lat, 90)})
							}
						}
						out := rs.s.LineString(cloneLS(lin))
						c.Eval()
						if !c12common(c, rs.name, lin, out, "LineString") {
							continue
						}
						if len(lin) > 2 {
							for i := 0; i+2 < len(out); i++ {
								if !(rs.s.DistanceFunc(out[i], out[i+1]) > rs.s.Threshold) {
									c.Fail("", "Radial kept two consecutive vertices not farther apart than the threshold (in the caller's distance function)", map[string]interface{}{"simplifier": rs.name, "threshold": rs.s.Threshold, "input": sv(lin), "output": sv(out), "at": i})
									break
								}
							}
						}
					}
					// --- Radial
					for _, t := range []float64{t1, t2} {
						s := c12radial(t)
						out := s.ls(cloneLS(in))
						c.Eval()
						if !c12common(c, s.name, in, out, "LineString") {
							continue
						}
						dropped = dropped || len(out) < len(in)
						if len(in) > 2 {
							for i := 0; i+2 < len(out); i++ { // all consecutive pairs except the last
								if !(planar.Distance(out[i], out[i+1]) > t) {
									c.Fail("", "Radial kept two consecutive vertices not farther apart than the threshold", map[string]interface{}{"simplifier": s.name, "input": sv(in), "output": sv(out), "at": i})
									break
								}
							}
						}
						ro := s.ring(orb.Ring(cloneLS(in)))
						c.Eval()
						c12common(c, s.name, in, ro, "Ring")
					}
					// --- Visvalingam
					keep := 0
					if r.Bool() {
						keep = r.Range(2, 10)
					}
					closed := len(in) > 1 && in[0] == in[len(in)-1]
					for _, asRing := range []bool{false, true} {
						min := keep
						if min == 0 {
							min = 2
							if asRing {
								min = 3
								if closed {
									min = 4
								}
							}
						}
						var outs [2]orb.LineString
						a1, a2 := t1*t1, t2*t2 // area thresholds
						for k, t := range []float64{a1, a2} {
							var vs *simplify.VisvalingamSimplifier
							if keep == 0 {
								vs = c12mkVis(t, 0)
							} else {
								vs = c12mkVis(t, keep)
							}
							s := c12vis(vs, fmt.Sprintf("Visvalingam(%g,%d)", t, keep))
							// the same simplifier value sees a line first, then the case's geometry
							s.ls(orb.LineString{{0, 0}, {1, 5}, {2, 0}, {3, 5}, {4, 0}})
							var out orb.LineString
							if asRing {
								out = orb.LineString(s.ring(orb.Ring(cloneLS(in))))
							} else {
								out = s.ls(cloneLS(in))
							}
							c.Eval()
							outs[k] = out
							if !c12common(c, s.name, in, out, fmt.Sprintf("ring=%v", asRing)) {
								continue
							}
							dropped = dropped || len(out) < len(in)
							want := min
							if len(in) < want {
								want = len(in)
							}
							if len(out) < want {
								c.Fail("", "Visvalingam went below the minimum vertex count", map[string]interface{}{"simplifier": s.name, "ring": asRing, "closed": closed, "input": sv(in), "output": sv(out), "minimum": want})
							}
						}
						if !isSubsequence(outs[1], outs[0]) {
							c.Fail("", "Visvalingam: a larger threshold kept a vertex a smaller one dropped", map[string]interface{}{"input": sv(in), "keep": keep, "a1": a1, "a2": a2, "out1": sv(outs[0]), "out2": sv(outs[1])})
						}
						// keep-N returns exactly N when the input is longer
						n := r.Range(2, 10)
						ks := c12mkVis(math.MaxFloat64, n)
						var out orb.LineString
						if asRing {
							out = orb.LineString(ks.Ring(orb.Ring(cloneLS(in))))
						} else {
							out = ks.LineString(cloneLS(in))
						}
						c.Eval()
						if c12common(c, fmt.Sprintf("VisvalingamKeep(%d)", n), in, out, fmt.Sprintf("ring=%v", asRing)) {
							if len(in) > n && len(in) > 2 && len(out) != n {
								c.Fail("", "VisvalingamKeep(N) did not return exactly N vertices for a longer input", map[string]interface{}{"N": n, "ring": asRing, "input": sv(in), "output": sv(out)})
							}
							dropped = dropped || len(out) < len(in)
						}
					}
					if len(in) > 2 && dropped {
						c.Nontrivial(hashPts(in))
						c.Sample(map[string]interface{}{"input": sv(in), "thresholds": []float64{t1, t2}, "visvalingam_keep": keep})
					}
				},
			},
			{
				Name: "wrappers", Count: h.Fixed(6000, 1500000),
				Run: func(c *h.Ctx, idx uint64, r *h.Rand) {
					// polygons whose rings may collapse, multi-polygons, collections, layers
					mkRing := func() orb.Ring {
						ls := c12genLine(r)
						if len(ls) > 2 && r.Bool() {
							ls = append(ls, ls[0])
						}
						return orb.Ring(ls)
					}
					var mp orb.MultiPolygon
					for k := r.Range(1, 3); k > 0; k-- {
						var pg orb.Polygon
						for j := r.Range(1, 3); j > 0; j-- {
							pg = append(pg, mkRing())
						}
						mp = append(mp, pg)
					}
					t := c12threshold(r, orb.LineString(mp[0][0]))
					var sims []c12simp
					sims = append(sims, c12dp(t), c12radial(t), c12vis(c12mkVis(t*t, 0), fmt.Sprintf("VisvalingamThreshold(%g)", t*t)), c12vis(c12mkVis(math.MaxFloat64, r.Range(2, 6)), "VisvalingamKeep"))
					for _, s := range sims {
						// expected by composition of the ring method
						var exp orb.MultiPolygon
						for _, pg := range mp {
							var ep orb.Polygon
							for i, rg := range pg {
								o := s.ring(cloneRing(rg))
								if i != 0 && len(o) <= 2 {
									continue
								}
								ep = append(ep, o)
							}
							gp := s.poly(clonePoly(pg))
							c.Eval()
							if !refmodel.EqualValues(gp, ep) {
								c.Fail("", "Polygon simplification is not ring-wise with collapsed holes dropped", map[string]interface{}{"simplifier": s.name, "polygon": sv(pg), "got": sv(gp), "expected": sv(ep)})
							}
							if len(ep) == 0 || len(ep[0]) <= 2 {
								continue
							}
							exp = append(exp, ep)
						}
						got := s.mp(cloneMP(mp))
						c.Eval()
						if !(len(got) == 0 && len(exp) == 0) && !refmodel.EqualValues(got, exp) {
							c.Fail("", "MultiPolygon simplification does not drop exactly the polygons whose outer ring collapsed", map[string]interface{}{"simplifier": s.name, "multipolygon": sv(mp), "got": sv(got), "expected": sv(exp)})
						}
						// generic entry and collection, point kinds pass through
						pt, mpt, bd := orb.Point{1, 2}, orb.MultiPoint{{1, 2}, {1, 2}, {3, 4}}, orb.Bound{Min: orb.Point{0, 0}, Max: orb.Point{1, 1}}
						coll := orb.Collection{pt, mpt.Clone(), bd, cloneMP(mp), orb.LineString(cloneRing(mp[0][0]))}
						gc := s.s.Simplify(coll)
						c.Eval()
						cc, ok := gc.(orb.Collection)
						if !ok || len(cc) != 5 || !refmodel.EqualValues(cc[0], pt) || !refmodel.EqualValues(cc[1], mpt) || !refmodel.EqualValues(cc[2], bd) {
							c.Fail("", "generic Simplify does not pass point kinds / bounds through a collection unchanged", map[string]interface{}{"simplifier": s.name, "got": sv(gc)})
						} else {
							var wantMP orb.Geometry
							if len(exp) > 0 {
								wantMP = exp
							}
							if !(cc[3] == nil && wantMP == nil) && !refmodel.EqualValues(cc[3], wantMP) {
								c.Fail("", "generic Simplify of a multi-polygon member differs from the typed method", map[string]interface{}{"simplifier": s.name, "got": sv(cc[3]), "expected": sv(wantMP)})
							}
						}
						// mvt layer: features whose geometry simplifies to nil are removed
						fc := geojson.NewFeatureCollection()
						geoms := []orb.Geometry{pt, cloneMP(mp), orb.LineString{}, orb.LineString(cloneRing(mp[0][0])), orb.MultiPoint(nil)}
						for i, g := range geoms {
							f := geojson.NewFeature(g)
							f.ID = i
							fc.Append(f)
						}
						layers := mvt.Layers{mvt.NewLayer("a", fc)}
						layers.Simplify(s.s)
						c.Eval()
						var wantIDs []int
						for i, g := range geoms {
							if s.s.Simplify(orb.Clone(g)) != nil {
								wantIDs = append(wantIDs, i)
							}
						}
						okL := len(layers[0].Features) == len(wantIDs)
						for i := 0; okL && i < len(wantIDs); i++ {
							okL = layers[0].Features[i].ID == wantIDs[i]
						}
						if !okL {
							c.Fail("", "mvt Layers.Simplify does not keep exactly the features whose simplification is non-nil", map[string]interface{}{"simplifier": s.name, "kept": len(layers[0].Features), "want_ids": wantIDs})
						}
					}
					c.Nontrivial(h.Mix(hashPts(mp[0][0]), uint64(len(mp))))
					c.Sample(map[string]interface{}{"multipolygon": sv(mp), "threshold": t})
				},
			},
		},
	})
}
