package mon

import (
	"bytes"
	"encoding/json"
	"errors"
	"fmt"
	"reflect"

	"github.com/paulmach/orb"
	"github.com/paulmach/orb/geojson"
	"go.mongodb.org/mongo-driver/bson"
	"go.mongodb.org/mongo-driver/bson/primitive"

	"verif/internal/gen"
	"verif/internal/h"
	"verif/internal/refmodel"
)

// C02 — GeoJSON (JSON and BSON) round-trips geometry, feature, collection.

// normGJ: what a geometry denotes in GeoJSON: Ring/Bound as polygon, an empty collection as null (at every level).
func normGJ(g orb.Geometry) orb.Geometry {
	switch x := g.(type) {
	case orb.Ring:
		return orb.Polygon{x}
	case orb.Bound:
		return orb.Polygon{refmodel.BoundRing(x)}
	case orb.Collection:
		if len(x) == 0 {
			return nil
		}
		out := make(orb.Collection, len(x))
		for i := range x {
			out[i] = normGJ(x[i])
		}
		return out
	}
	return g
}

// normVal maps decoded JSON/BSON values to plain Go values: maps, slices, float64, string, bool, nil.
func normVal(v interface{}) interface{} {
	switch t := v.(type) {
	case nil:
		return nil
	case map[string]interface{}:
		m := make(map[string]interface{}, len(t))
		for k, x := range t {
			m[k] = normVal(x)
		}
		return m
	case geojson.Properties:
		return normVal(map[string]interface{}(t))
	case primitive.M:
		return normVal(map[string]interface{}(t))
	case primitive.D:
		m := make(map[string]interface{}, len(t))
		for _, e := range t {
			m[e.Key] = normVal(e.Value)
		}
		return m
	case []interface{}:
		s := make([]interface{}, len(t))
		for i, x := range t {
			s[i] = normVal(x)
		}
		return s
	case primitive.A:
		return normVal([]interface{}(t))
	case json.Number:
		f, _ := t.Float64()
		return f
	case int:
		return float64(t)
	case int32:
		return float64(t)
	case int64:
		return float64(t)
	case float32:
		return float64(t)
	case geojson.BBox:
		s := make([]interface{}, len(t))
		for i, x := range t {
			s[i] = x
		}
		return s
	case []float64:
		s := make([]interface{}, len(t))
		for i, x := range t {
			s[i] = x
		}
		return s
	}
	return v
}

func sameVal(a, b interface{}) bool {
	na, nb := normVal(a), normVal(b)
	if ma, ok := na.(map[string]interface{}); ok && len(ma) == 0 {
		na = nil
	}
	if mb, ok := nb.(map[string]interface{}); ok && len(mb) == 0 {
		nb = nil
	}
	return reflect.DeepEqual(na, nb)
}

// output of the previous case's direct MarshalJSON call and a private copy of it (history check)
var c02longF = &geojson.Feature{}
var c02longG = &geojson.Geometry{}
var c02longN int
var c02retG retained

var c02held, c02heldCopy []byte
var c02heldG, c02heldGCopy []byte

var c02strings = []string{"", "a", "name", "Zürich", "日本", "with \"quotes\"", "back\\slash", "tab\there", "line\nbreak", "<html>&amp;", "emoji 😀", " sep", "nul\\u0000esc", "0", "null", "true", "unit\x1fsep", "bell\a", "del\x7f",
	// strings that spell a value of another type a codec may know (an ObjectID in hex, a date, numbers): still strings
	"507F1F77BCF86CD799439011", "507f1f77bcf86cd799439011", "0123456789ABCDEFabcdef00", "2020-01-02T03:04:05Z", "1e5", "0x1F", "-0", "1.0", "NaN", " 12 ", "$oid", "12345678901234567890", "AAECAwQ="}
var c02keys = []string{"name", "kind", "id", "a", "b", "ünï", "key with space", "", "Type", "properties", "geometry", "coordinates", "x.y", "$dollarless", "unit\x1fsep", "del\x7f", "bell\a"}

func c02value(r *h.Rand, depth int) interface{} {
	k := r.Intn(9)
	if depth <= 0 && k >= 7 {
		k = r.Intn(7)
	}
	switch k {
	case 0:
		return nil
	case 1:
		return r.Bool()
	case 2:
		return float64(r.Range(-1000, 1000))
	case 3:
		return gen.FloatFinite(r)
	case 4, 5:
		return c02strings[r.Intn(len(c02strings))]
	case 6:
		return []float64{0, 1, -1, 0.5, 1e21, 1e-7, 123456789012}[r.Intn(7)]
	case 7:
		n := r.Intn(4)
		a := make([]interface{}, n)
		for i := range a {
			a[i] = c02value(r, depth-1)
		}
		return a
	default:
		return c02object(r, depth-1, false)
	}
}

func c02object(r *h.Rand, depth int, foreign bool) map[string]interface{} {
	m := map[string]interface{}{}
	for n := r.Intn(5); n > 0; n-- {
		k := c02keys[r.Intn(len(c02keys))]
		if foreign && (k == "type" || k == "bbox" || k == "features") {
			continue
		}
		m[k] = c02value(r, depth)
	}
	return m
}

// shape walker: the JSON produced for a geometry is well-formed RFC 7946.
var c02depth = map[string]int{"Point": 1, "MultiPoint": 2, "LineString": 2, "MultiLineString": 3, "Polygon": 3, "MultiPolygon": 4}

func c02shape(v interface{}) string {
	if v == nil {
		return "" // null geometry
	}
	obj, ok := v.(map[string]interface{})
	if !ok {
		return "geometry is not an object"
	}
	typ, ok := obj["type"].(string)
	if !ok {
		return "no string \"type\" member"
	}
	if typ == "GeometryCollection" {
		if _, has := obj["coordinates"]; has {
			return "GeometryCollection has \"coordinates\""
		}
		gs, ok := obj["geometries"].([]interface{})
		if !ok {
			return "GeometryCollection without \"geometries\" array"
		}
		for _, m := range gs {
			if e := c02shape(m); e != "" {
				return "member: " + e
			}
		}
		return ""
	}
	want, ok := c02depth[typ]
	if !ok {
		return "unknown type " + typ
	}
	if _, has := obj["geometries"]; has {
		return typ + " has \"geometries\""
	}
	co, ok := obj["coordinates"].([]interface{})
	if !ok {
		return typ + ": \"coordinates\" is not an array"
	}
	var walk func(a []interface{}, depth int) string
	walk = func(a []interface{}, depth int) string {
		if depth == want {
			if len(a) != 2 {
				return fmt.Sprintf("%s: position with %d numbers", typ, len(a))
			}
			for _, n := range a {
				if _, ok := n.(float64); !ok {
					return typ + ": position member is not a number"
				}
			}
			return ""
		}
		for _, e := range a {
			sub, ok := e.([]interface{})
			if !ok {
				return fmt.Sprintf("%s: number or non-array at depth %d, positions belong at depth %d", typ, depth+1, want)
			}
			if s := walk(sub, depth+1); s != "" {
				return s
			}
		}
		return ""
	}
	return walk(co, 1)
}

func kindGJ(g orb.Geometry) string {
	if g == nil {
		return ""
	}
	return g.GeoJSONType()
}

func init() {
	opts := &gen.GeomOpts{Float: gen.FloatFinite, Empty: true, EmptyParts: true, RingBound: true, Huge: true}
	optsOrd := &gen.GeomOpts{Float: gen.FloatOrdinary, Empty: true, EmptyParts: true, RingBound: true, Huge: true}
	genGeom := func(r *h.Rand) orb.Geometry {
		o := opts
		if r.Bool() {
			o = optsOrd
		}
		return o.Geometry(r, r.Intn(5))
	}

	// geometry through JSON and BSON
	checkGeom := func(c *h.Ctx, g orb.Geometry) {
		want := normGJ(refmodel.Copy(g))
		d := func() map[string]interface{} {
			return map[string]interface{}{"kind": refmodel.KindName(g), "geometry": sv(g)}
		}
		// ---- JSON
		var data []byte
		var err error
		if pv, st := h.Catch(func() { data, err = geojson.NewGeometry(g).MarshalJSON() }); pv != nil || err != nil {
			c.Fail("", "marshalling a geometry to JSON failed or panicked", map[string]interface{}{"case": d(), "panic": sv(pv), "err": sv(err), "stack": st})
			return
		}
		c.Eval()
		if c02heldG != nil && !bytes.Equal(c02heldG, c02heldGCopy) {
			c.Fail("", "bytes returned by an earlier Geometry.MarshalJSON call were overwritten by a later marshal", map[string]interface{}{"earlier_output_now": string(c02heldG), "earlier_output_then": string(c02heldGCopy)})
		}
		c02heldG, c02heldGCopy = data, append([]byte{}, data...)
		if !json.Valid(data) {
			c.Fail("", "marshalled geometry is not valid JSON", map[string]interface{}{"case": d(), "json": string(data)})
			return
		}
		if _, isColl := g.(orb.Collection); !isColl && g != nil {
			// the exported fields filled in by hand (the other way of building the value the package documents)
			byHand := &geojson.Geometry{Type: g.GeoJSONType(), Coordinates: refmodel.Copy(g)}
			if d2, err := byHand.MarshalJSON(); err != nil || !bytes.Equal(d2, data) {
				c.Fail("", "a Geometry value with Type and Coordinates filled in by hand marshals differently from NewGeometry's", map[string]interface{}{"case": d(), "by_hand": string(d2), "new_geometry": string(data), "err": sv(err)})
			}
			c.Eval()
		}
		if want != nil {
			// the value handed to encoding/json not through a pointer (a field of a record passed by value, a map value,
			// json.Marshal(*g)): the pointer method MarshalJSON is not used there, the document is still the geometry's
			byValue, err := json.Marshal(*geojson.NewGeometry(g))
			if len(data)%2 == 0 {
				var wrapped []byte
				wrapped, err = json.Marshal(map[string]interface{}{"g": *geojson.NewGeometry(g)})
				if err == nil && len(wrapped) > 6 {
					byValue = wrapped[5 : len(wrapped)-1]
				}
			}
			c.Eval()
			// (not necessarily the same bytes as through the pointer: the same geometry, RFC 7946 shaped)
			var gv interface{}
			shape := "not valid JSON"
			if err == nil && json.Unmarshal(byValue, &gv) == nil {
				shape = c02shape(gv)
			}
			back, uerr := geojson.UnmarshalGeometry(byValue)
			switch {
			case err != nil || shape != "":
				c.Fail("", "a Geometry marshalled by value is not an RFC 7946 geometry document: "+shape, map[string]interface{}{"case": d(), "by_value": c02trunc(byValue), "by_pointer": c02trunc(data), "err": sv(err)})
			case uerr != nil || back == nil || !refmodel.EqualValues(normGJ(back.Geometry()), want):
				c.Fail("", "a Geometry marshalled by value does not unmarshal to the same geometry", map[string]interface{}{"case": d(), "by_value": c02trunc(byValue), "by_pointer": c02trunc(data), "err": sv(uerr)})
			case bytes.Equal(byValue, data):
				c.Count("by_value_documents_byte_equal_to_the_pointer_form", 1)
			}
		}
		var generic interface{}
		json.Unmarshal(data, &generic)
		if e := c02shape(generic); e != "" {
			c.Fail("", "marshalled geometry is not RFC 7946 shaped: "+e, map[string]interface{}{"case": d(), "json": string(data)})
		} else if want != nil {
			if t, _ := generic.(map[string]interface{})["type"].(string); t != kindGJ(want) {
				c.Fail("", "\"type\" does not name the geometry kind", map[string]interface{}{"case": d(), "json": string(data)})
			}
		}
		if want == nil {
			if string(data) != "null" {
				c.Fail("", "an empty collection is not marshalled as a null geometry", map[string]interface{}{"case": d(), "json": string(data)})
			}
		} else {
			var gg *geojson.Geometry
			if pv, st := h.Catch(func() { gg, err = geojson.UnmarshalGeometry(data) }); pv != nil {
				c.Fail("", "UnmarshalGeometry panicked on marshalled output", map[string]interface{}{"case": d(), "json": string(data), "panic": sv(pv), "stack": st})
				return
			}
			c.Eval()
			if err != nil {
				c.Fail("", "UnmarshalGeometry failed on marshalled output", map[string]interface{}{"case": d(), "json": string(data), "err": err.Error()})
				return
			}
			var back orb.Geometry
			if pv, st := h.Catch(func() { back = gg.Geometry() }); pv != nil {
				c.Fail("", "Geometry() panicked after unmarshalling marshalled output", map[string]interface{}{"case": d(), "json": string(data), "panic": sv(pv), "stack": st})
				return
			}
			if !refmodel.EqualBits(back, want) {
				c.Fail("", "geometry differs after a JSON round trip", map[string]interface{}{"case": d(), "json": string(data), "got": sv(back), "got_kind": refmodel.KindName(back)})
				return
			}
			again, err := gg.MarshalJSON()
			c.Eval()
			if err != nil || !bytes.Equal(again, data) {
				c.Fail("", "marshalling the decoded geometry again is not byte-identical", map[string]interface{}{"case": d(), "first": string(data), "second": string(again)})
			}
			// one destination value for every row (JSON and BSON alternately): it must hold this geometry, whatever it held before,
			// and what an earlier row handed out must stay as it was
			prev := c02longG.Geometry()
			var derr error
			how := "json.Unmarshal"
			if c02longN++; c02longN%2 == 0 {
				derr = json.Unmarshal(data, c02longG)
			} else if bd, e := bson.Marshal(geojson.NewGeometry(g)); e == nil {
				derr, how = bson.Unmarshal(bd, c02longG), "bson.Unmarshal"
			}
			c.Eval()
			if derr != nil || !refmodel.EqualBits(c02longG.Geometry(), want) {
				c.Fail("", how+" into a geometry value that was used for an earlier decode does not give this geometry", map[string]interface{}{"case": d(), "err": sv(derr), "held_before": sv(prev), "got": sv(c02longG.Geometry()), "got_kind": refmodel.KindName(c02longG.Geometry())})
				c02longG = &geojson.Geometry{}
			} else if again2, err := c02longG.MarshalJSON(); err != nil || !bytes.Equal(again2, data) {
				c.Fail("", "a geometry value used for an earlier decode marshals differently after decoding this geometry", map[string]interface{}{"case": d(), "held_before": sv(prev), "first": string(data), "second": string(again2)})
				c02longG = &geojson.Geometry{}
			}
			c02retG.check(c)
			c02retG.set(c02longG.Geometry(), "decoding a later geometry into the same *geojson.Geometry")
		}
		// ---- BSON (a geometry document needs a non-null geometry)
		if want == nil {
			return
		}
		var bdata []byte
		if pv, st := h.Catch(func() { bdata, err = bson.Marshal(geojson.NewGeometry(g)) }); pv != nil || err != nil {
			c.Fail("", "marshalling a geometry to BSON failed or panicked", map[string]interface{}{"case": d(), "panic": sv(pv), "err": sv(err), "stack": st})
			return
		}
		bg := &geojson.Geometry{}
		if pv, st := h.Catch(func() { err = bson.Unmarshal(bdata, bg) }); pv != nil {
			c.Fail("", "bson.Unmarshal into *Geometry panicked on marshalled output", map[string]interface{}{"case": d(), "panic": sv(pv), "stack": st})
			return
		}
		c.Evals(2)
		if err != nil {
			c.Fail("", "bson.Unmarshal into *Geometry failed on marshalled output", map[string]interface{}{"case": d(), "err": err.Error()})
			return
		}
		var back orb.Geometry
		if pv, st := h.Catch(func() { back = bg.Geometry() }); pv != nil {
			c.Fail("", "Geometry() panicked after a BSON round trip", map[string]interface{}{"case": d(), "panic": sv(pv), "stack": st})
			return
		}
		if !refmodel.EqualBits(back, want) {
			c.Fail("", "geometry differs after a BSON round trip", map[string]interface{}{"case": d(), "got": sv(back), "got_kind": refmodel.KindName(back)})
		}
		// ---- helper types
		c02helpers(c, g, d)
	}

	genFeature := func(r *h.Rand) *geojson.Feature {
		f := geojson.NewFeature(genGeom(r))
		if r.P(1, 12) {
			f.Geometry = nil
		} else if r.P(1, 20) {
			// a geometry that is a nil slice of its kind (what `var ls orb.LineString` gives): it has no coordinates to be
			// nested, so the RFC shape clause does not apply to it, but it comes back as a (vertex-less) value of its kind
			f.Geometry = []orb.Geometry{orb.MultiPoint(nil), orb.LineString(nil), orb.MultiLineString(nil), orb.Polygon(nil), orb.MultiPolygon(nil), orb.Ring(nil)}[r.Intn(6)]
		}
		switch r.Intn(3) {
		case 0:
			f.ID = c02strings[r.Intn(len(c02strings))]
		case 1:
			f.ID = float64(r.Range(-5, 100000))
			if r.Bool() {
				f.ID = gen.FloatFinite(r)
			}
		}
		if r.P(3, 4) {
			f.Properties = geojson.Properties(c02object(r, 3, false))
		} else if r.Bool() {
			f.Properties = nil
		}
		switch r.Intn(4) {
		case 0:
			f.BBox = geojson.BBox{r.Uniform(-180, 0), r.Uniform(-90, 0), r.Uniform(0, 180), r.Uniform(0, 90)}
		case 1:
			f.BBox = geojson.BBox{-1, -2, 0, 3, 4, 100.5}
		}
		return f
	}

	sameFeature := func(a, b *geojson.Feature) string {
		if b == nil {
			return "decoded feature is nil"
		}
		if !refmodel.EqualBits(b.Geometry, normGJ(a.Geometry)) {
			return fmt.Sprintf("geometry %T %v, expected %T %v", b.Geometry, b.Geometry, normGJ(a.Geometry), normGJ(a.Geometry))
		}
		if !sameVal(a.ID, b.ID) {
			return fmt.Sprintf("id %#v, expected %#v", b.ID, a.ID)
		}
		if !sameVal(a.Properties, b.Properties) {
			return fmt.Sprintf("properties %#v, expected %#v", b.Properties, a.Properties)
		}
		if !sameVal(a.BBox, b.BBox) && !(len(a.BBox) == 0 && len(b.BBox) == 0) {
			return fmt.Sprintf("bbox %#v, expected %#v", b.BBox, a.BBox)
		}
		if b.Type != "Feature" {
			return "type " + b.Type
		}
		return ""
	}

	h.Register(&h.Monitor{
		ID: "C02",
		Rule: "geometries from the grammar (nine kinds, empty values and members, nested collections incl. empty nested collections; finite coordinates over the full float64 range), features with id in {absent, string, number}, property maps over null/bool/number/string (escapes, unicode, control characters)/arrays/objects to depth 4, bbox absent/4/6 numbers, feature collections of 0..20 (rarely 6007..12289, above a megabyte of JSON) features with 0..5 foreign members (names avoid type/bbox/features, include control characters), all through JSON and BSON, plus the helper types geojson.Point..MultiPolygon. " +
			"non-trivial = at least one vertex or one property; distinct = hash of the marshalled JSON",
		MinNontrivial: h.Fixed(3000, 2000000),
		Assumptions: []string{
			"values compared after normalising Go types (maps, slices, numbers as float64; nil map = empty map): the property says 'the same properties', and BSON legitimately returns primitive.D/A and int32/int64",
			"nil-slice geometries are outside the quantifier (they marshal to \"coordinates\":null)",
		},
		Subs: []h.Sub{
			{
				Name: "geometries", Count: h.Fixed(3000, 2000000),
				Run: func(c *h.Ctx, idx uint64, r *h.Rand) {
					g := genGeom(r)
					c.Note([]byte(sv(g)))
					checkGeom(c, g)
					if refmodel.NumVertices(g) > 0 {
						c.Nontrivial(refmodel.Hash(g))
						if c.WantSample() {
							b, _ := geojson.NewGeometry(g).MarshalJSON()
							if len(b) < 600 {
								c.Sample(string(b))
							}
						}
					}
				},
			},
			{
				Name: "features", Count: h.Fixed(2000, 1200000),
				Run: func(c *h.Ctx, idx uint64, r *h.Rand) {
					f := genFeature(r)
					if r.P(1, 10) {
						// the documented hooks for another JSON codec, set to a pass-through around encoding/json:
						// everything must come out exactly as without them
						geojson.CustomJSONMarshaler, geojson.CustomJSONUnmarshaler = c02codec{}, c02codec{}
						switch r.Intn(4) {
						case 0:
							geojson.CustomJSONUnmarshaler = c02codec{useNumber: true} // numbers arrive as json.Number
						case 1:
							geojson.CustomJSONUnmarshaler = nil // only the output side customised
						case 2:
							geojson.CustomJSONMarshaler = nil // only the input side customised
						}
						defer func() { geojson.CustomJSONMarshaler, geojson.CustomJSONUnmarshaler = nil, nil }()
						c.Count("cases_with_custom_json_codec_hooks", 1)
					}
					d := func() map[string]interface{} {
						return map[string]interface{}{"feature": fmt.Sprintf("id=%#v bbox=%v props=%#v geom=%T%v", f.ID, f.BBox, map[string]interface{}(f.Properties), f.Geometry, f.Geometry)}
					}
					c.Note([]byte(sv(d())))
					var data []byte
					var err error
					if pv, st := h.Catch(func() { data, err = json.Marshal(f) }); pv != nil || err != nil {
						c.Fail("", "marshalling a feature to JSON failed or panicked", map[string]interface{}{"case": d(), "panic": sv(pv), "err": sv(err), "stack": st})
						return
					}
					// the bytes returned by a direct MarshalJSON call stay the caller's: hold them across later marshals
					if direct, derr := f.MarshalJSON(); derr != nil || !bytes.Equal(direct, data) {
						c.Fail("", "Feature.MarshalJSON differs from json.Marshal(feature)", map[string]interface{}{"case": d(), "err": sv(derr)})
					} else {
						if c02held != nil && !bytes.Equal(c02held, c02heldCopy) {
							c.Fail("", "bytes returned by an earlier Feature.MarshalJSON call were overwritten by a later marshal", map[string]interface{}{"earlier_output_now": string(c02held), "earlier_output_then": string(c02heldCopy)})
						}
						c02held, c02heldCopy = direct, append([]byte{}, direct...)
					}
					var f2 *geojson.Feature
					if pv, st := h.Catch(func() { f2, err = geojson.UnmarshalFeature(data) }); pv != nil {
						c.Fail("", "UnmarshalFeature panicked on marshalled output", map[string]interface{}{"case": d(), "json": string(data), "panic": sv(pv), "stack": st})
						return
					}
					c.Evals(2)
					if err != nil {
						c.Fail("", "UnmarshalFeature failed on marshalled output", map[string]interface{}{"case": d(), "json": string(data), "err": err.Error()})
						return
					}
					if diff := sameFeature(f, f2); diff != "" {
						c.Fail("", "feature differs after a JSON round trip: "+diff, map[string]interface{}{"case": d(), "json": string(data)})
						return
					}
					if again, err := json.Marshal(f2); err != nil || !bytes.Equal(again, data) {
						c.Fail("", "marshalling the decoded feature again is not byte-identical", map[string]interface{}{"case": d(), "first": string(data), "second": string(again)})
					}
					// one Feature value as the destination of every row: what the previous row left in the caller's hands
					// (its property map) must not change, and the value must hold this row's feature
					heldProps, heldCopy := c02longF.Properties, normVal(map[string]interface{}(c02longF.Properties))
					if derr := json.Unmarshal(data, c02longF); derr != nil {
						c.Fail("", "json.Unmarshal into a feature value used for an earlier decode failed", map[string]interface{}{"case": d(), "err": derr.Error()})
						c02longF = &geojson.Feature{}
					} else {
						if diff := sameFeature(f, c02longF); diff != "" {
							c.Fail("", "json.Unmarshal into a feature value used for an earlier decode does not give this feature: "+diff, map[string]interface{}{"case": d(), "json": string(data)})
							c02longF = &geojson.Feature{}
						}
						if heldProps != nil && !reflect.DeepEqual(normVal(map[string]interface{}(heldProps)), heldCopy) {
							c.Fail("", "decoding a later feature into the same value changed the property map handed out by the earlier decode", map[string]interface{}{"earlier_properties_then": heldCopy, "earlier_properties_now": fmt.Sprintf("%#v", heldProps)})
						}
					}
					c.Eval()
					var generic map[string]interface{}
					json.Unmarshal(data, &generic)
					if generic["type"] != "Feature" {
						c.Fail("", "feature JSON has no \"type\":\"Feature\"", map[string]interface{}{"json": string(data)})
					} else if e := c02shape(generic["geometry"]); e != "" && !(f.Geometry != nil && isNilSlice(f.Geometry)) {
						c.Fail("", "feature geometry is not RFC 7946 shaped: "+e, map[string]interface{}{"json": string(data)})
					}
					// BSON
					var bdata []byte
					if pv, st := h.Catch(func() { bdata, err = bson.Marshal(f) }); pv != nil || err != nil {
						c.Fail("", "marshalling a feature to BSON failed or panicked", map[string]interface{}{"case": d(), "panic": sv(pv), "err": sv(err), "stack": st})
						return
					}
					f3 := &geojson.Feature{}
					if pv, st := h.Catch(func() { err = bson.Unmarshal(bdata, f3) }); pv != nil {
						c.Fail("", "bson.Unmarshal into *Feature panicked on marshalled output", map[string]interface{}{"case": d(), "panic": sv(pv), "stack": st})
						return
					}
					c.Evals(2)
					if err != nil {
						c.Fail("", "bson.Unmarshal into *Feature failed on marshalled output", map[string]interface{}{"case": d(), "err": err.Error()})
						return
					}
					if diff := sameFeature(f, f3); diff != "" {
						c.Fail("", "feature differs after a BSON round trip: "+diff, d())
					}
					if refmodel.NumVertices(f.Geometry) > 0 || len(f.Properties) > 0 {
						c.Nontrivial(h.HashBytes(data))
						if len(data) < 500 {
							c.Sample(string(data))
						}
					}
				},
			},
			{
				Name: "feature-collections", Count: h.Fixed(600, 300000),
				Run: func(c *h.Ctx, idx uint64, r *h.Rand) {
					fc := geojson.NewFeatureCollection()
					if r.P(1, 10) {
						fc.Features = nil
					}
					nf := r.Intn(21)
					if r.P(1, 100) {
						nf = []int{6007, 7001, 8191, 9001, 12289}[r.Intn(5)] // thousands of features: more than a megabyte of JSON
					}
					for n := nf; n > 0; n-- {
						fc.Append(genFeature(r))
					}
					if r.P(2, 3) {
						fc.ExtraMembers = geojson.Properties(c02object(r, 3, true))
						for k := range fc.ExtraMembers {
							if k == "type" || k == "bbox" || k == "features" {
								delete(fc.ExtraMembers, k)
							}
						}
					}
					if r.P(1, 3) {
						fc.BBox = geojson.BBox{-10, -20, 30, 40}
					}
					d := func() map[string]interface{} {
						return map[string]interface{}{"features": len(fc.Features), "extra_members": fmt.Sprintf("%#v", map[string]interface{}(fc.ExtraMembers)), "bbox": fc.BBox}
					}
					sameFC := func(b *geojson.FeatureCollection) string {
						if len(b.Features) != len(fc.Features) {
							return fmt.Sprintf("%d features, expected %d", len(b.Features), len(fc.Features))
						}
						for i := range fc.Features {
							if diff := sameFeature(fc.Features[i], b.Features[i]); diff != "" {
								return fmt.Sprintf("feature %d: %s", i, diff)
							}
						}
						if !sameVal(fc.ExtraMembers, b.ExtraMembers) {
							return fmt.Sprintf("foreign members %#v, expected %#v", b.ExtraMembers, fc.ExtraMembers)
						}
						if !sameVal(fc.BBox, b.BBox) && !(len(fc.BBox) == 0 && len(b.BBox) == 0) {
							return fmt.Sprintf("bbox %v, expected %v", b.BBox, fc.BBox)
						}
						if b.Type != "FeatureCollection" {
							return "type " + b.Type
						}
						return ""
					}
					var data []byte
					var err error
					if pv, st := h.Catch(func() { data, err = json.Marshal(fc) }); pv != nil || err != nil {
						c.Fail("", "marshalling a feature collection to JSON failed or panicked", map[string]interface{}{"case": d(), "panic": sv(pv), "err": sv(err), "stack": st})
						return
					}
					if !json.Valid(data) {
						c.Fail("", "marshalled feature collection is not valid JSON", map[string]interface{}{"case": d(), "json": c02trunc(data)})
						return
					}
					if d2, err := fc.MarshalJSON(); err != nil || !bytes.Equal(d2, data) {
						c.Fail("", "FeatureCollection.MarshalJSON differs from json.Marshal", d())
					}
					var fc2 *geojson.FeatureCollection
					if pv, st := h.Catch(func() { fc2, err = geojson.UnmarshalFeatureCollection(data) }); pv != nil {
						c.Fail("", "UnmarshalFeatureCollection panicked on marshalled output", map[string]interface{}{"case": d(), "panic": sv(pv), "stack": st})
						return
					}
					c.Evals(3)
					if err != nil {
						c.Fail("", "UnmarshalFeatureCollection failed on marshalled output", map[string]interface{}{"case": d(), "err": err.Error(), "json": c02trunc(data)})
						return
					}
					if diff := sameFC(fc2); diff != "" {
						c.Fail("", "feature collection differs after a JSON round trip: "+diff, map[string]interface{}{"case": d(), "json": c02trunc(data)})
						return
					}
					if again, err := json.Marshal(fc2); err != nil || !bytes.Equal(again, data) {
						c.Fail("", "marshalling the decoded feature collection again is not byte-identical", map[string]interface{}{"case": d(), "first": c02trunc(data), "second": c02trunc(again)})
					}
					var bdata []byte
					if pv, st := h.Catch(func() { bdata, err = bson.Marshal(fc) }); pv != nil || err != nil {
						c.Fail("", "marshalling a feature collection to BSON failed or panicked", map[string]interface{}{"case": d(), "panic": sv(pv), "err": sv(err), "stack": st})
						return
					}
					fc3 := &geojson.FeatureCollection{}
					if pv, st := h.Catch(func() { err = bson.Unmarshal(bdata, fc3) }); pv != nil {
						c.Fail("", "bson.Unmarshal into *FeatureCollection panicked on marshalled output", map[string]interface{}{"case": d(), "panic": sv(pv), "stack": st})
						return
					}
					c.Evals(2)
					if err != nil {
						c.Fail("", "bson.Unmarshal into *FeatureCollection failed on marshalled output", map[string]interface{}{"case": d(), "err": err.Error()})
						return
					}
					if diff := sameFC(fc3); diff != "" {
						c.Fail("", "feature collection differs after a BSON round trip: "+diff, d())
					}
					c.Nontrivial(h.HashBytes(data))
					c.Max("bytes of JSON in one feature collection", float64(len(data)), nil)
					if len(data) < 700 {
						c.Sample(string(data))
					}
				},
			},
		},
	})
}

// c02codec is a pass-through for geojson.CustomJSONMarshaler / CustomJSONUnmarshaler.
type c02codec struct{ useNumber bool }

func (c02codec) Marshal(v interface{}) ([]byte, error) { return json.Marshal(v) }
func (k c02codec) Unmarshal(data []byte, v interface{}) error {
	if !k.useNumber {
		return json.Unmarshal(data, v)
	}
	d := json.NewDecoder(bytes.NewReader(data))
	d.UseNumber()
	if err := d.Decode(v); err != nil {
		return err
	}
	if d.More() {
		return errors.New("trailing data")
	}
	return nil
}

func c02trunc(b []byte) string {
	if len(b) > 6000 {
		return string(b[:3000]) + fmt.Sprintf(" ...(%d bytes)... ", len(b)-6000) + string(b[len(b)-3000:])
	}
	return string(b)
}

// c02helpers round-trips the helper types geojson.Point .. MultiPolygon for geometries of their kind.
func c02helpers(c *h.Ctx, g orb.Geometry, d func() map[string]interface{}) {
	type rt struct {
		v    interface{}
		into func() interface{}
		get  func(interface{}) orb.Geometry
	}
	var t *rt
	switch x := g.(type) {
	case orb.Point:
		t = &rt{geojson.Point(x), func() interface{} { return &geojson.Point{} }, func(p interface{}) orb.Geometry { return p.(*geojson.Point).Geometry() }}
	case orb.MultiPoint:
		t = &rt{geojson.MultiPoint(x), func() interface{} { return &geojson.MultiPoint{} }, func(p interface{}) orb.Geometry { return p.(*geojson.MultiPoint).Geometry() }}
	case orb.LineString:
		t = &rt{geojson.LineString(x), func() interface{} { return &geojson.LineString{} }, func(p interface{}) orb.Geometry { return p.(*geojson.LineString).Geometry() }}
	case orb.MultiLineString:
		t = &rt{geojson.MultiLineString(x), func() interface{} { return &geojson.MultiLineString{} }, func(p interface{}) orb.Geometry { return p.(*geojson.MultiLineString).Geometry() }}
	case orb.Polygon:
		t = &rt{geojson.Polygon(x), func() interface{} { return &geojson.Polygon{} }, func(p interface{}) orb.Geometry { return p.(*geojson.Polygon).Geometry() }}
	case orb.MultiPolygon:
		t = &rt{geojson.MultiPolygon(x), func() interface{} { return &geojson.MultiPolygon{} }, func(p interface{}) orb.Geometry { return p.(*geojson.MultiPolygon).Geometry() }}
	}
	if t == nil {
		return
	}
	for _, enc := range []string{"json", "bson"} {
		var data []byte
		var err error
		dst := t.into()
		pv, st := h.Catch(func() {
			if enc == "json" {
				data, err = json.Marshal(t.v)
				if err == nil {
					err = json.Unmarshal(data, dst)
				}
			} else {
				data, err = bson.Marshal(t.v)
				if err == nil {
					err = bson.Unmarshal(data, dst)
				}
			}
		})
		c.Evals(2)
		if pv != nil || err != nil {
			c.Fail("", "helper type round trip ("+enc+") failed or panicked", map[string]interface{}{"case": d(), "panic": sv(pv), "err": sv(err), "stack": st})
			continue
		}
		if !refmodel.EqualBits(t.get(dst), g) {
			c.Fail("", "helper type round trip ("+enc+") changed the geometry", map[string]interface{}{"case": d(), "got": sv(t.get(dst))})
		}
	}
}
