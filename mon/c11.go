package mon

import (
	"errors"
	"fmt"
	"math"
	"sort"

	"github.com/paulmach/orb"
	"github.com/paulmach/orb/quadtree"

	"verif/internal/h"
)

// C11 — the quadtree answers every query as a plain list of its contents would.
// Online reference model: a slice of unique handles stepped in lock-step with the tree.

type qitem struct {
	id int
	pt orb.Point
}

func (q *qitem) Point() orb.Point { return q.pt }

type qmodel struct {
	c      *h.Ctx
	tree   *quadtree.Quadtree
	bound  orb.Bound
	live   []*qitem
	dead   []*qitem
	probeN int
	nextID int
	log    []string
	failed bool
}

func newQModel(c *h.Ctx, b orb.Bound) *qmodel {
	return &qmodel{c: c, tree: quadtree.New(b), bound: b}
}

func (m *qmodel) fail(msg string, extra interface{}) {
	if m.failed {
		return
	}
	m.failed = true
	hist := m.log
	if len(hist) > 60 {
		hist = append([]string{fmt.Sprintf("... %d earlier operations ...", len(hist)-60)}, hist[len(hist)-60:]...)
	}
	m.c.Fail("", msg, map[string]interface{}{"bound": sv(m.bound), "history": hist, "detail": extra, "live": m.liveString()})
}

func (m *qmodel) liveString() string {
	s := ""
	for i, it := range m.live {
		if i > 40 {
			s += " ..."
			break
		}
		s += fmt.Sprintf(" #%d%v", it.id, it.pt)
	}
	return s
}

func d2(a, b orb.Point) float64 {
	dx, dy := a[0]-b[0], a[1]-b[1]
	return dx*dx + dy*dy
}

func (m *qmodel) add(p orb.Point) {
	it := &qitem{id: m.nextID, pt: p}
	m.nextID++
	m.log = append(m.log, fmt.Sprintf("add #%d %v", it.id, p))
	err := m.tree.Add(it)
	m.c.Eval()
	inside := m.bound.Min[0] <= p[0] && p[0] <= m.bound.Max[0] && m.bound.Min[1] <= p[1] && p[1] <= m.bound.Max[1]
	if inside {
		if err != nil {
			m.fail("Add inside the bound returned an error", err.Error())
			return
		}
		m.live = append(m.live, it)
	} else if err == nil {
		// (which error is not the property's business: "rejected with an error". The documented sentinel is counted when it
		// is the error or is wrapped by it.)
		m.fail("Add outside the tree bound was not rejected with an error", sv(err))
	} else if errors.Is(err, quadtree.ErrPointOutsideOfBounds) {
		m.c.Count("adds_outside_the_bound_rejected_with_ErrPointOutsideOfBounds", 1)
	}
}

// contents returns the tree's contents as a set, failing on duplicates / foreign pointers.
func (m *qmodel) contents() map[*qitem]bool {
	got := m.tree.InBound(nil, m.bound)
	m.c.Eval()
	set := make(map[*qitem]bool, len(got))
	for _, p := range got {
		it, ok := p.(*qitem)
		if !ok || set[it] {
			m.fail("tree contents hold a foreign or duplicated pointer", sv(p))
			return nil
		}
		set[it] = true
	}
	return set
}

func (m *qmodel) checkContents() {
	set := m.contents()
	if set == nil {
		return
	}
	if len(set) != len(m.live) {
		m.fail("tree holds a different number of pointers than were added and not removed", map[string]int{"tree": len(set), "model": len(m.live)})
		return
	}
	for _, it := range m.live {
		if !set[it] {
			m.fail("a pointer that was added and not removed is missing from the tree", fmt.Sprintf("#%d %v", it.id, it.pt))
			return
		}
	}
}

func (m *qmodel) removeByPoint(p orb.Point) {
	m.log = append(m.log, fmt.Sprintf("remove-by-point %v", p))
	var pv interface{}
	var got bool
	pv, stack := h.Catch(func() { got = m.tree.Remove(p, nil) })
	m.c.Eval()
	if pv != nil {
		m.fail("Remove panicked", map[string]interface{}{"panic": sv(pv), "stack": stack})
		return
	}
	n := 0
	for _, it := range m.live {
		if it.pt == p {
			n++
		}
	}
	if got != (n > 0) {
		m.fail("Remove by point reported the wrong result", map[string]interface{}{"got": got, "matches_in_model": n})
		return
	}
	if !got {
		m.checkContents()
		return
	}
	// the tree may remove any pointer with that point: find which one is gone
	set := m.contents()
	if set == nil {
		return
	}
	var gone []*qitem
	for _, it := range m.live {
		if !set[it] {
			gone = append(gone, it)
		}
	}
	if len(gone) != 1 || gone[0].pt != p || len(set) != len(m.live)-1 {
		m.fail("Remove by point did not remove exactly one pointer with that point", map[string]interface{}{"removed": len(gone), "tree_size": len(set), "model_size": len(m.live)})
		return
	}
	m.drop(gone[0])
}

func (m *qmodel) drop(it *qitem) {
	for i, x := range m.live {
		if x == it {
			m.live = append(m.live[:i:i], m.live[i+1:]...)
			break
		}
	}
	m.dead = append(m.dead, it)
}

func (m *qmodel) removeByIdentity(it *qitem, isLive bool) {
	m.log = append(m.log, fmt.Sprintf("remove-by-identity #%d %v (live=%v)", it.id, it.pt, isLive))
	var got bool
	// the filter alone decides what matches; the first argument only says where to start looking: every third removal
	// starts from another place (inside the tree's bound, on it, or outside it)
	var probe orb.Pointer = it
	if m.probeN++; m.probeN%3 == 0 {
		b := m.bound
		w, ht := b.Max[0]-b.Min[0], b.Max[1]-b.Min[1]
		probe = &qitem{id: -2, pt: []orb.Point{b.Min, {b.Max[0] + w, b.Min[1] - ht}, {b.Min[0] + w/3, b.Min[1] + ht/7}, {b.Min[0] - 1, b.Max[1] + 1}}[(m.probeN/3)%4]}
		m.log[len(m.log)-1] += fmt.Sprintf(" starting at %v", probe.Point())
	}
	pv, stack := h.Catch(func() { got = m.tree.Remove(probe, func(p orb.Pointer) bool { return p == orb.Pointer(it) }) })
	m.c.Eval()
	if pv != nil {
		m.fail("Remove panicked", map[string]interface{}{"panic": sv(pv), "stack": stack})
		return
	}
	if got != isLive {
		m.fail("Remove by identity reported the wrong result", map[string]interface{}{"got": got, "want": isLive})
		return
	}
	if isLive {
		m.drop(it)
	}
	m.checkContents()
}

// structure invariant through the verif hook: every value inside its node's cell.
func (m *qmodel) checkStructure() {
	n := 0
	bad := ""
	m.tree.VerifWalk(func(depth int, cell orb.Bound, v orb.Pointer, kids [4]bool) {
		if v == nil {
			return
		}
		n++
		p := v.Point()
		if p[0] < cell.Min[0] || p[0] > cell.Max[0] || p[1] < cell.Min[1] || p[1] > cell.Max[1] {
			bad = fmt.Sprintf("value %v at depth %d outside its cell %v", p, depth, cell)
		}
	})
	if bad != "" {
		m.fail("structural invariant broken: a stored value lies outside its node's cell", bad)
	} else if n != len(m.live) {
		m.fail("number of values stored in nodes differs from the model", map[string]int{"nodes": n, "model": len(m.live)})
	}
}

type qfilter struct {
	name string
	f    quadtree.FilterFunc
	acc  func(*qitem) bool
}

var qfilters = []qfilter{
	{"none", nil, func(*qitem) bool { return true }},
	{"odd-id", func(p orb.Pointer) bool { return p.(*qitem).id%2 == 1 }, func(it *qitem) bool { return it.id%2 == 1 }},
	{"id-mod-3", func(p orb.Pointer) bool { return p.(*qitem).id%3 == 0 }, func(it *qitem) bool { return it.id%3 == 0 }},
}

func (m *qmodel) queryFind(q orb.Point, fl qfilter) {
	var got orb.Pointer
	if fl.f == nil {
		got = m.tree.Find(q)
	} else {
		got = m.tree.Matching(q, fl.f)
	}
	m.c.Eval()
	best := math.Inf(1)
	for _, it := range m.live {
		if fl.acc(it) {
			if d := d2(it.pt, q); d < best {
				best = d
			}
		}
	}
	if math.IsInf(best, 1) {
		if got != nil {
			m.fail("Find/Matching returned a pointer although no stored pointer qualifies", map[string]interface{}{"query": sv(q), "filter": fl.name, "got": sv(got.Point())})
		}
		return
	}
	it, ok := got.(*qitem)
	if !ok || it == nil {
		m.fail("Find/Matching returned nil although a stored pointer qualifies", map[string]interface{}{"query": sv(q), "filter": fl.name})
		return
	}
	live := false
	for _, x := range m.live {
		live = live || x == it
	}
	if !live || !fl.acc(it) || d2(it.pt, q) != best {
		m.fail("Find/Matching did not return a stored, accepted pointer at minimum distance", map[string]interface{}{"query": sv(q), "filter": fl.name, "got": fmt.Sprintf("#%d %v", it.id, it.pt), "min_dist2": best, "got_dist2": d2(it.pt, q), "stored": live})
	}
}

func (m *qmodel) queryKNearest(q orb.Point, k int, fl qfilter, maxDist float64, buf []orb.Pointer) {
	var got []orb.Pointer
	if fl.f == nil {
		if maxDist >= 0 {
			got = m.tree.KNearest(buf, q, k, maxDist)
		} else {
			got = m.tree.KNearest(buf, q, k)
		}
	} else if maxDist >= 0 {
		got = m.tree.KNearestMatching(buf, q, k, fl.f, maxDist)
	} else {
		got = m.tree.KNearestMatching(buf, q, k, fl.f)
	}
	m.c.Eval()
	var ds []float64
	for _, it := range m.live {
		if !fl.acc(it) {
			continue
		}
		d := d2(it.pt, q)
		if maxDist >= 0 && !(d < maxDist*maxDist) {
			continue
		}
		ds = append(ds, d)
	}
	sort.Float64s(ds)
	if len(ds) > k {
		ds = ds[:k]
	}
	det := func() map[string]interface{} {
		var gs []string
		for _, p := range got {
			if p == nil {
				gs = append(gs, "nil")
			} else {
				gs = append(gs, fmt.Sprintf("%v@%g", p.Point(), d2(p.Point(), q)))
			}
		}
		return map[string]interface{}{"query": sv(q), "k": k, "filter": fl.name, "max_dist": maxDist, "got": gs, "want_dist2": ds, "buffer_cap": cap(buf)}
	}
	if len(got) != len(ds) {
		m.fail("KNearest returned the wrong number of pointers", det())
		return
	}
	seen := map[*qitem]bool{}
	for i, p := range got {
		it, ok := p.(*qitem)
		if !ok || it == nil || seen[it] {
			m.fail("KNearest returned nil, a foreign or a repeated pointer", det())
			return
		}
		seen[it] = true
		live := false
		for _, x := range m.live {
			live = live || x == it
		}
		if !live || !fl.acc(it) || d2(it.pt, q) != ds[i] {
			m.fail("KNearest result is not the k closest accepted stored pointers, nearest first", det())
			return
		}
	}
}

func (m *qmodel) queryInBound(b orb.Bound, fl qfilter, buf []orb.Pointer) {
	var got []orb.Pointer
	if fl.f == nil {
		got = m.tree.InBound(buf, b)
	} else {
		got = m.tree.InBoundMatching(buf, b, fl.f)
	}
	m.c.Eval()
	want := map[*qitem]bool{}
	for _, it := range m.live {
		if fl.acc(it) && b.Min[0] <= it.pt[0] && it.pt[0] <= b.Max[0] && b.Min[1] <= it.pt[1] && it.pt[1] <= b.Max[1] {
			want[it] = true
		}
	}
	ok := len(got) == len(want)
	seen := map[*qitem]bool{}
	for _, p := range got {
		it, isIt := p.(*qitem)
		if !isIt || !want[it] || seen[it] {
			ok = false
			break
		}
		seen[it] = true
	}
	if !ok {
		m.fail("InBound did not return exactly the accepted stored pointers inside the closed box", map[string]interface{}{"box": sv(b), "filter": fl.name, "got": len(got), "want": len(want)})
	}
}

// battery runs a fixed set of queries against the current state.
func (m *qmodel) battery(r *h.Rand, pts []orb.Point, light bool) {
	if m.failed {
		return
	}
	m.checkStructure()
	var stale []orb.Pointer
	if len(m.dead) > 0 {
		stale = []orb.Pointer{m.dead[0], m.dead[0], m.dead[0], m.dead[0], m.dead[0], m.dead[0], m.dead[0], m.dead[0]}
	} else {
		stale = make([]orb.Pointer, 8)
	}
	nq := len(pts)
	if light && nq > 3 {
		nq = 3
	}
	for i := 0; i < nq && !m.failed; i++ {
		q := pts[i]
		if light {
			q = pts[r.Intn(len(pts))]
		}
		fl := qfilters[(i+len(m.log))%len(qfilters)]
		m.queryFind(q, qfilters[0])
		m.queryFind(q, fl)
		for _, k := range []int{1, 2, 3, 7} {
			if light && k != []int{1, 2, 3, 7}[(i+len(m.log))%4] {
				continue
			}
			m.queryKNearest(q, k, qfilters[0], -1, nil)
			m.queryKNearest(q, k, fl, -1, stale[:0:8])
			// strictness: the limit is the exact distance of a stored point (integer/dyadic coordinates: exact)
			if len(m.live) > 0 {
				it := m.live[(i+k)%len(m.live)]
				md := math.Sqrt(d2(it.pt, q))
				if md*md == d2(it.pt, q) {
					m.queryKNearest(q, k, qfilters[0], md, nil)
				}
				m.queryKNearest(q, k, fl, md*1.5+0.25, stale[:3:8])
			}
			m.queryKNearest(q, k, qfilters[0], 0.3, nil)
		}
		// boxes: around q, degenerate at q, edge-aligned to a stored point, whole bound
		w := float64(1 + i%3)
		m.queryInBound(orb.Bound{Min: orb.Point{q[0] - w, q[1] - w}, Max: orb.Point{q[0] + w, q[1] + w}}, fl, nil)
		m.queryInBound(orb.Bound{Min: q, Max: q}, qfilters[0], stale[:0:8])
		m.queryInBound(orb.Bound{Min: orb.Point{q[0] - w, q[1] - w}, Max: orb.Point{q[0] + w, q[1] + w}}, qfilters[0], stale[:5:8])
		if len(m.live) > 0 {
			it := m.live[i%len(m.live)]
			m.queryInBound(orb.Bound{Min: orb.Point{math.Min(q[0], it.pt[0]), math.Min(q[1], it.pt[1])}, Max: orb.Point{math.Max(q[0], it.pt[0]), math.Max(q[1], it.pt[1])}}, qfilters[0], nil)
		}
	}
}

var c11alpha = []orb.Point{{5, 5}, {5, 5}, {4, 1}, {8, 4}} // p2 duplicates p1, p3 on the root's vertical mid-line, p4 on the bound and the horizontal mid-line
var c11queries = []orb.Point{{5, 5}, {4, 1}, {8, 4}, {4.5, 1.5}, {0, 0}, {4, 4}, {6.5, 4.25}}

const c11ops = 12

// c11step applies operation code op (0..11).
func c11step(m *qmodel, op int) {
	switch {
	case op < 4:
		m.add(c11alpha[op])
	case op == 4: // outside the bound
		m.add(orb.Point{9, 1})
	case op < 9:
		m.removeByPoint(c11alpha[op-5])
	default:
		i := op - 9 // 1st/2nd/3rd live handle
		if i < len(m.live) {
			m.removeByIdentity(m.live[i], true)
		} else if len(m.dead) > 0 {
			m.removeByIdentity(m.dead[len(m.dead)-1], false)
		} else {
			m.removeByIdentity(&qitem{id: -1, pt: c11alpha[0]}, false)
		}
	}
}

func pow(b, e uint64) uint64 {
	r := uint64(1)
	for ; e > 0; e-- {
		r *= b
	}
	return r
}

func init() {
	runHistory := func(c *h.Ctx, idx uint64, L int, r *h.Rand) {
		m := newQModel(c, orb.Bound{Min: orb.Point{0, 0}, Max: orb.Point{8, 8}})
		code := idx
		if idx%16 == 0 {
			m.battery(r, c11queries, false) // a tree nothing was ever added to
		}
		for s := 0; s < L && !m.failed; s++ {
			c11step(m, int(code%c11ops))
			code /= c11ops
			m.battery(r, c11queries, false)
		}
		c.Nontrivial(c.CaseHash())
		if c.WantSample() && idx%977 == 3 {
			c.Sample(map[string]interface{}{"history": m.log})
		}
	}
	h.Register(&h.Monitor{
		ID: "C11",
		Rule: "exhaustive: every history of length 5 (quick) / 6 (thorough) over 12 operations {add p1..p4 (p2 duplicates p1, p3 on the root's vertical mid-line, p4 on the tree bound and a mid-line), add outside the bound, remove-by-point p1..p4, remove-by-identity of the 1st/2nd/3rd live handle (a stale handle when there are fewer)} from an empty tree, the full query battery and the structural walker after every operation; random: histories of 200..2000 operations over 64-point integer, 10000-point float and 96-point cell-mid-line (bounds with non-dyadic edges) alphabets with duplicate-heavy adds and removal bursts. " +
			"non-trivial = every history (each contains at least one mutation step followed by queries); distinct = history index / hash of the operation list",
		MinNontrivial: h.Fixed(100000, 1000000),
		Assumptions: []string{
			"ties: among equal points remove-by-point may take any; among equal distances nearest queries may return any — the model follows the tree's choice and checks distances, membership and multiplicity",
			"the distance limit of KNearest is compared as d^2 < limit^2 in float64, exactly as documented ('strictly within')",
		},
		Subs: []h.Sub{
			{
				Name: "exhaustive-histories", Count: func(t string) uint64 {
					if t == "thorough" {
						return pow(c11ops, 6)
					}
					return pow(c11ops, 5)
				}, Exhaustive: h.Always,
				Run: func(c *h.Ctx, idx uint64, r *h.Rand) {
					L := 5
					if c.Thorough() {
						L = 6
					}
					runHistory(c, idx, L, r)
				},
			},
			{
				Name: "random-histories", Count: h.Fixed(200, 20000), BudgetSec: 120,
				Run: func(c *h.Ctx, idx uint64, r *h.Rand) {
					big := r.P(1, 4)
					var alpha []orb.Point
					b := orb.Bound{Min: orb.Point{0, 0}, Max: orb.Point{16, 16}}
					if big {
						b = orb.Bound{Min: orb.Point{-100, -50}, Max: orb.Point{100, 50}}
						for i := 0; i < 10000; i++ {
							alpha = append(alpha, orb.Point{r.Uniform(-100, 100), r.Uniform(-50, 50)})
						}
					} else if r.P(1, 3) {
						// a bound whose edges are not short binary fractions, and an alphabet of points exactly on the
						// mid-lines of its cells down to depth 6 (computed as the mean of the cell's edges), so that stored
						// points, query points and box edges coincide with cell boundaries to the last bit
						b = []orb.Bound{
							{Min: orb.Point{-1.8, -0.7}, Max: orb.Point{0.9, 2.3}},
							{Min: orb.Point{0.1, 0.3}, Max: orb.Point{0.7, 1.1}},
							{Min: orb.Point{-179.9, -85.05}, Max: orb.Point{179.9, 85.05}},
							{Min: orb.Point{-20037508.34, -20037508.34}, Max: orb.Point{20037508.34, 20037508.34}},
							{Min: orb.Point{1e-3, 1 / 3.0}, Max: orb.Point{3.3, math.Pi}},
						}[r.Intn(5)]
						var mids func(lo, hi float64, depth int, out *[]float64)
						mids = func(lo, hi float64, depth int, out *[]float64) {
							if depth == 0 {
								return
							}
							mid := (lo + hi) / 2
							*out = append(*out, mid)
							mids(lo, mid, depth-1, out)
							mids(mid, hi, depth-1, out)
						}
						var mx, my []float64
						mids(b.Min[0], b.Max[0], 6, &mx)
						mids(b.Min[1], b.Max[1], 6, &my)
						mx, my = append(mx, b.Min[0], b.Max[0]), append(my, b.Min[1], b.Max[1])
						for i := 0; i < 96; i++ {
							p := orb.Point{mx[r.Intn(len(mx))], my[r.Intn(len(my))]}
							switch r.Intn(4) {
							case 0:
								p[0] = r.Uniform(b.Min[0], b.Max[0])
							case 1:
								p[1] = r.Uniform(b.Min[1], b.Max[1])
							}
							alpha = append(alpha, p)
						}
						c.Count("histories_on_cell_midlines", 1)
					} else {
						for i := 0; i < 64; i++ {
							p := orb.Point{float64(r.Range(0, 16)), float64(r.Range(0, 16))}
							if r.P(1, 4) {
								p = orb.Point{float64(r.Range(0, 32)) / 2, float64(r.Range(0, 32)) / 2}
							}
							alpha = append(alpha, p)
						}
					}
					// next-door neighbours: for a tenth of the alphabet also the point one ulp away in x, y or both
					// (distinct points that any tolerance, however small, would confuse)
					for i, n := 0, len(alpha); i < n; i++ {
						if r.P(1, 10) {
							p := alpha[i]
							dir := []float64{math.Inf(1), math.Inf(-1)}[r.Intn(2)]
							switch r.Intn(3) {
							case 0:
								p[0] = math.Nextafter(p[0], dir)
							case 1:
								p[1] = math.Nextafter(p[1], dir)
							default:
								p[0], p[1] = math.Nextafter(p[0], dir), math.Nextafter(p[1], -dir)
							}
							if b.Contains(p) {
								alpha = append(alpha, p)
							}
						}
					}
					m := newQModel(c, b)
					m.battery(r, alpha[:6], false) // a tree nothing was ever added to
					nops := r.Range(200, 2000)
					qs := make([]orb.Point, 6)
					burst := 0
					for s := 0; s < nops && !m.failed; s++ {
						if burst == 0 && r.P(1, 60) {
							burst = r.Range(5, 80)
						}
						x := r.Intn(10)
						if burst > 0 {
							burst--
							x = 6 + r.Intn(4)
						}
						switch {
						case x < 6:
							m.add(alpha[r.Intn(len(alpha))])
						case x == 6:
							p := alpha[r.Intn(len(alpha))]
							if len(m.live) > 0 && r.Bool() {
								p = m.live[r.Intn(len(m.live))].pt
							}
							m.removeByPoint(p)
						case x < 9:
							if len(m.live) > 0 {
								m.removeByIdentity(m.live[r.Intn(len(m.live))], true)
							}
						default:
							if len(m.dead) > 0 {
								m.removeByIdentity(m.dead[r.Intn(len(m.dead))], false)
							} else {
								m.add(orb.Point{b.Max[0] + 1, b.Min[1]})
							}
						}
						for i := range qs {
							qs[i] = alpha[r.Intn(len(alpha))]
							if r.P(1, 3) {
								qs[i] = orb.Point{r.Uniform(b.Min[0], b.Max[0]), r.Uniform(b.Min[1], b.Max[1])}
							}
						}
						if len(m.live) <= 64 || s%16 == 0 {
							m.checkContents()
							m.battery(r, qs, false)
						} else {
							m.battery(r, qs, true)
						}
					}
					c.Count("random_history_operations", int64(len(m.log)))
					c.Nontrivial(h.Mix(h.HashString(fmt.Sprint(m.log[:min2(len(m.log), 50)])), uint64(len(m.log))))
					if c.WantSample() {
						c.Sample(map[string]interface{}{"operations": len(m.log), "alphabet": len(alpha), "first_operations": m.log[:min2(len(m.log), 12)], "live_at_end": len(m.live)})
					}
				},
			},
			{
				// stored values of a type that Go cannot compare with == (a struct with a slice field, stored by value): the tree
				// never needs to compare two stored values, only their points, so everything works as with any other type
				Name: "values-that-cannot-be-compared", Count: h.Fixed(150, 15000),
				Run: func(c *h.Ctx, idx uint64, r *h.Rand) {
					b := orb.Bound{Min: orb.Point{0, 0}, Max: orb.Point{8, 8}}
					tree := quadtree.New(b)
					live := map[int]orb.Point{}
					next := 0
					var log []string
					fail := func(msg string, extra interface{}) {
						c.Fail("", msg, map[string]interface{}{"history": log, "detail": extra})
					}
					idsOf := func(ps []orb.Pointer) []int {
						out := make([]int, 0, len(ps))
						for _, p := range ps {
							v, ok := p.(c11opaque)
							if !ok {
								return nil
							}
							out = append(out, v.id)
						}
						sort.Ints(out)
						return out
					}
					for step := 0; step < 60; step++ {
						p := orb.Point{float64(r.Intn(5)) * 2, float64(r.Intn(5)) * 2}
						var pv interface{}
						var st string
						switch r.Intn(4) {
						case 0, 1:
							v := c11opaque{id: next, pt: p, tags: []string{"t"}}
							next++
							log = append(log, fmt.Sprintf("add #%d %v", v.id, p))
							pv, st = h.Catch(func() {
								if err := tree.Add(v); err != nil {
									fail("Add failed", err.Error())
								}
							})
							live[v.id] = p
						case 2:
							// remove by point: one of the values at that point goes (any of them)
							log = append(log, fmt.Sprintf("remove-by-point %v", p))
							n := 0
							for _, q := range live {
								if q == p {
									n++
								}
							}
							var got bool
							pv, st = h.Catch(func() { got = tree.Remove(c11opaque{id: -1, pt: p}, nil) })
							if pv == nil {
								if got != (n > 0) {
									fail("Remove by point reported the wrong result", map[string]interface{}{"got": got, "values_at_the_point": n})
									return
								}
								if got {
									// find out which one went
									after := idsOf(tree.InBound(nil, b))
									gone := -1
									for id, q := range live {
										if q != p {
											continue
										}
										i := sort.SearchInts(after, id)
										if i >= len(after) || after[i] != id {
											gone = id
										}
									}
									if gone < 0 {
										fail("Remove reported success but every value is still there", nil)
										return
									}
									delete(live, gone)
								}
							}
						default:
							// remove by identity (the id decides)
							for id, q := range live {
								log = append(log, fmt.Sprintf("remove-by-id #%d", id))
								var got bool
								pv, st = h.Catch(func() {
									got = tree.Remove(c11opaque{id: id, pt: q}, func(o orb.Pointer) bool { return o.(c11opaque).id == id })
								})
								if pv == nil && !got {
									fail("Remove by identity did not find a stored value", id)
									return
								}
								delete(live, id)
								break
							}
						}
						c.Eval()
						if pv != nil {
							fail("the quadtree panicked on values of a type that cannot be compared with ==", map[string]interface{}{"panic": sv(pv), "stack": st})
							return
						}
						got := idsOf(tree.InBound(nil, b))
						want := make([]int, 0, len(live))
						for id := range live {
							want = append(want, id)
						}
						sort.Ints(want)
						if fmt.Sprint(got) != fmt.Sprint(want) {
							fail("the tree's contents differ from the model", map[string]interface{}{"got": got, "want": want})
							return
						}
						q := orb.Point{float64(r.Intn(9)), float64(r.Intn(9))}
						var kn []orb.Pointer
						if pv, st := h.Catch(func() { kn = tree.KNearest(nil, q, 3); tree.Find(q) }); pv != nil {
							fail("a query panicked on values of a type that cannot be compared with ==", map[string]interface{}{"panic": sv(pv), "stack": st})
							return
						}
						wantN := len(live)
						if wantN > 3 {
							wantN = 3
						}
						if len(kn) != wantN {
							fail("KNearest returned the wrong number of values", map[string]interface{}{"got": len(kn), "want": wantN})
							return
						}
					}
					c.Nontrivial(c.CaseHash())
				},
			},
		},
	})
}

// c11opaque is a stored value that cannot be compared with == (it has a slice field and is stored by value).
type c11opaque struct {
	id   int
	pt   orb.Point
	tags []string
}

func (o c11opaque) Point() orb.Point { return o.pt }

func min2(a, b int) int {
	if a < b {
		return a
	}
	return b
}
