package mon

import (
	"math"

	"github.com/paulmach/orb"
	"github.com/paulmach/orb/maptile"

	"verif/internal/h"
)

// C13 — map tile arithmetic is a consistent quadtree of the mercator square.
// Oracle: bit-level reference (interleave, shifts, ancestor walk) and interval containment.

func refQuadkey(t maptile.Tile) uint64 {
	var k uint64
	for i := uint(0); i < uint(t.Z); i++ {
		k |= uint64((t.X>>i)&1) << (2 * i)
		k |= uint64((t.Y>>i)&1) << (2*i + 1)
	}
	return k
}

func refAncestor(t maptile.Tile, z maptile.Zoom) maptile.Tile {
	d := uint(t.Z - z)
	return maptile.Tile{X: t.X >> d, Y: t.Y >> d, Z: z}
}

func refIsAncestorOrSelf(a, t maptile.Tile) bool {
	return t.Z >= a.Z && refAncestor(t, a.Z) == a
}

func bitsEq(a, b float64) bool { return math.Float64bits(a) == math.Float64bits(b) }

func clampLat(p orb.Point) orb.Point {
	if p[1] > 85.0511 {
		p[1] = 85.0511
	} else if p[1] < -85.0511 {
		p[1] = -85.0511
	}
	return p
}

func tileExtentDeg(t maptile.Tile) float64 { return 360 / float64(uint64(1)<<uint(t.Z)) }

// c13point checks At for one point and zoom.
func c13point(c *h.Ctx, p orb.Point, z maptile.Zoom, strict bool) {
	t := maptile.At(p, z)
	c.Eval()
	if !t.Valid() || t.Z != z {
		c.Fail("", "maptile.At returned an invalid tile", map[string]interface{}{"point": sv(p), "zoom": z, "tile": sv(t)})
		return
	}
	b := t.Bound()
	q := clampLat(p)
	slack := 0.0
	if !strict {
		slack = 1e-9*tileExtentDeg(t) + 1e-10
	}
	if p[1] > 85.0511 || p[1] < -85.0511 {
		// documented: snapped to the first / last row; only the column is decided by the point
		wantY := uint32(0)
		if p[1] < 0 {
			wantY = uint32(1)<<uint(z) - 1
		}
		if t.Y != wantY {
			c.Fail("", "a latitude beyond +-85.0511 is not snapped to the first/last tile row", map[string]interface{}{"point": sv(p), "zoom": z, "tile": sv(t)})
		}
		q[1] = (b.Min[1] + b.Max[1]) / 2
	}
	// the column is a linear function of the longitude: only a few ulps of 180 degrees of rounding are possible
	// there, at any zoom; the row goes through log/tan and back through atan/exp
	xslack := slack
	if !strict {
		xslack = 1e-12
	}
	if ox := math.Max(b.Min[0]-q[0], q[0]-b.Max[0]); ox > 0 {
		c.Max("longitude_containment_overshoot_deg", ox, func() string { return sv(p) + " z=" + sv(z) })
	}
	if q[0] < b.Min[0]-xslack || q[0] > b.Max[0]+xslack || q[1] < b.Min[1]-slack || q[1] > b.Max[1]+slack {
		c.Fail("", "the bound of the tile found for a point does not contain the point", map[string]interface{}{"point": sv(p), "zoom": z, "tile": sv(t), "bound": sv(b), "strict": strict})
	}
	over := math.Max(math.Max(b.Min[0]-q[0], q[0]-b.Max[0]), math.Max(b.Min[1]-q[1], q[1]-b.Max[1]))
	if over > 0 {
		c.Max("containment_overshoot_deg", over, func() string { return sv(p) + " z=" + sv(z) })
	}
}

// c13tile runs the single-tile checks.
func c13tile(c *h.Ctx, t maptile.Tile, strictCorners bool, r *h.Rand) {
	fail := func(msg string, extra interface{}) {
		c.Fail("", msg, map[string]interface{}{"tile": sv(t), "detail": extra})
	}
	if !t.Valid() {
		fail("generated tile invalid (harness)", nil)
		return
	}
	// quadkey
	k := t.Quadkey()
	c.Eval()
	if k != refQuadkey(t) {
		fail("Quadkey differs from bit interleaving", map[string]interface{}{"got": k, "want": refQuadkey(t)})
	}
	if back := maptile.FromQuadkey(k, t.Z); back != t {
		fail("quadkey does not round-trip", map[string]interface{}{"key": k, "back": sv(back)})
	}
	if back := maptile.FromQuadkey(refQuadkey(t), t.Z); back != t {
		fail("FromQuadkey of the reference key is not the tile", map[string]interface{}{"back": sv(back)})
	}
	c.Evals(2)
	// the optional tile buffer: Bound(1) spans the 3x3 block around the tile; a buffered call must not
	// change what later unbuffered calls return (call history)
	b0 := t.Bound()
	bb := t.Bound([]float64{0.5, 1, 0.25}[r.Intn(3)])
	b1 := t.Bound()
	c.Evals(3)
	if b1 != b0 || t.Bound(0) != b0 {
		fail("Bound() after a buffered Bound(buffer) call differs from Bound() before it", map[string]interface{}{"before": sv(b0), "buffered": sv(bb), "after": sv(b1)})
	}
	if !(bb.Min[0] < b0.Min[0] && bb.Max[0] > b0.Max[0] && bb.Min[1] <= b0.Min[1] && bb.Max[1] >= b0.Max[1]) {
		fail("a buffered bound does not contain the tile's bound", map[string]interface{}{"bound": sv(b0), "buffered": sv(bb)})
	}
	if maxI := uint32(1)<<uint(t.Z) - 1; t.X > 0 && t.X < maxI && t.Y > 0 && t.Y < maxI {
		b3 := t.Bound(1)
		nw, se := maptile.Tile{X: t.X - 1, Y: t.Y - 1, Z: t.Z}.Bound(), maptile.Tile{X: t.X + 1, Y: t.Y + 1, Z: t.Z}.Bound()
		if !bitsEq(b3.Min[0], nw.Min[0]) || !bitsEq(b3.Max[1], nw.Max[1]) || !bitsEq(b3.Max[0], se.Max[0]) || !bitsEq(b3.Min[1], se.Min[1]) {
			fail("Bound(1) is not the bound of the 3x3 block of tiles around the tile", map[string]interface{}{"got": sv(b3), "north_west": sv(nw), "south_east": sv(se)})
		}
	}
	// parent / children
	tb := t.Bound()
	if t.Z <= 30 {
		ch := t.Children()
		c.Eval()
		if len(ch) != 4 {
			fail("Children() does not return 4 tiles", sv(ch))
			return
		}
		seen := map[maptile.Tile]bool{}
		for _, x := range ch {
			seen[x] = true
			if !x.Valid() || x.Z != t.Z+1 || x.Parent() != t || x.X>>1 != t.X || x.Y>>1 != t.Y {
				fail("child is not a valid tile one level down whose parent is the tile", sv(x))
			}
			if !t.Contains(x) || x.Contains(t) {
				fail("Contains disagrees with parent/child relation", sv(x))
			}
			c.Evals(3)
			sib := x.Siblings()
			okS := len(sib) == 4
			for i := range sib {
				okS = okS && sib[i] == ch[i]
			}
			if !okS {
				fail("Siblings() of a child are not the parent's children", sv(sib))
			}
		}
		if len(seen) != 4 {
			fail("children are not distinct", sv(ch))
		}
		// bounds tile the parent's bound exactly
		for _, x := range ch {
			xb := x.Bound()
			left, top := x.X&1 == 0, x.Y&1 == 0
			okB := true
			if left {
				okB = okB && bitsEq(xb.Min[0], tb.Min[0])
			} else {
				okB = okB && bitsEq(xb.Max[0], tb.Max[0])
			}
			if top {
				okB = okB && bitsEq(xb.Max[1], tb.Max[1])
			} else {
				okB = okB && bitsEq(xb.Min[1], tb.Min[1])
			}
			if !okB {
				fail("a child's outer edges are not the parent's edges", map[string]interface{}{"child": sv(x), "child_bound": sv(xb), "parent_bound": sv(tb)})
			}
		}
		b00, b10, b01 := maptile.Tile{X: t.X << 1, Y: t.Y << 1, Z: t.Z + 1}.Bound(), maptile.Tile{X: t.X<<1 + 1, Y: t.Y << 1, Z: t.Z + 1}.Bound(), maptile.Tile{X: t.X << 1, Y: t.Y<<1 + 1, Z: t.Z + 1}.Bound()
		if !bitsEq(b00.Max[0], b10.Min[0]) || !bitsEq(b00.Min[1], b01.Max[1]) || !(b00.Max[0] > tb.Min[0] && b00.Max[0] < tb.Max[0]) || !(b00.Min[1] > tb.Min[1] && b00.Min[1] < tb.Max[1]) {
			fail("children do not share their inner edges exactly", map[string]interface{}{"b00": sv(b00), "b10": sv(b10), "b01": sv(b01)})
		}
	}
	if t.Z > 0 {
		p := t.Parent()
		c.Eval()
		if p != (maptile.Tile{X: t.X >> 1, Y: t.Y >> 1, Z: t.Z - 1}) || !p.Contains(t) {
			fail("Parent() wrong", sv(p))
		}
	}
	if !t.Contains(t) {
		fail("tile does not contain itself", nil)
	}
	// Range and ChildrenInZoomRange
	for _, dz := range []int{0, 1, 2, 3} {
		z2 := t.Z + maptile.Zoom(dz)
		if z2 > 30 {
			break
		}
		mn, mx := t.Range(z2)
		c.Eval()
		wmn := maptile.Tile{X: t.X << uint(dz), Y: t.Y << uint(dz), Z: z2}
		wmx := maptile.Tile{X: (t.X+1)<<uint(dz) - 1, Y: (t.Y+1)<<uint(dz) - 1, Z: z2}
		if mn != wmn || mx != wmx {
			fail("Range at a deeper zoom is not the descendants' extent", map[string]interface{}{"zoom": z2, "min": sv(mn), "max": sv(mx)})
		}
	}
	if t.Z > 0 {
		z2 := maptile.Zoom(r.Intn(int(t.Z)))
		mn, mx := t.Range(z2)
		c.Eval()
		if a := refAncestor(t, z2); mn != a || mx != a {
			fail("Range at a shallower zoom is not the ancestor", map[string]interface{}{"zoom": z2, "min": sv(mn), "max": sv(mx)})
		}
	}
	if t.Z <= 27 {
		z1 := t.Z + maptile.Zoom(r.Intn(2))
		z2 := z1 + maptile.Zoom(r.Intn(2))
		if t.Z <= 22 && r.P(1, 64) {
			// levels of thousands of tiles
			z1 = t.Z + maptile.Zoom(r.Range(4, 6))
			z2 = z1 + maptile.Zoom(r.Intn(2))
			c.Count("deep_descendant_ranges", 1)
		}
		got := maptile.ChildrenInZoomRange(t, z1, z2)
		c.Eval()
		want := 0
		for z := z1; z <= z2; z++ {
			want += 1 << (2 * uint(z-t.Z))
		}
		set := map[maptile.Tile]bool{}
		okC := len(got) == want
		for _, x := range got {
			if set[x] || !x.Valid() || x.Z < z1 || x.Z > z2 || !refIsAncestorOrSelf(t, x) {
				okC = false
			}
			set[x] = true
		}
		if !okC {
			fail("ChildrenInZoomRange is not exactly the descendants in the zoom range", map[string]interface{}{"z1": z1, "z2": z2, "count": len(got), "want": want})
		}
	}
	// centre maps back
	ctr := t.Center()
	if back := maptile.At(ctr, t.Z); back != t {
		key := ""
		// the clamp constant 85.0511 is slightly inside the mercator limit 85.05112878: at high zoom the centres of the
		// first/last few rows lie beyond it and are snapped to row 0 / the last row
		last := uint32(1)<<uint(t.Z) - 1
		if math.Abs(ctr[1]) > 85.0511 && back.X == t.X && back.Z == t.Z && ((ctr[1] > 0 && back.Y == 0) || (ctr[1] < 0 && back.Y == last)) {
			key = "C13/center-beyond-clamp-latitude"
		}
		c.Fail(key, "At(Center(tile)) is not the tile", map[string]interface{}{"tile": sv(t), "center": sv(ctr), "back": sv(back)})
	}
	c.Eval()
	// corners
	for _, p := range []orb.Point{tb.Min, tb.Max, tb.LeftTop(), tb.RightBottom()} {
		c13point(c, p, t.Z, strictCorners)
		if t.Z < 30 {
			c13point(c, p, t.Z+1, strictCorners)
		}
		if t.Z > 0 {
			c13point(c, p, t.Z-1, strictCorners)
		}
	}
	// neighbours share their edge coordinates exactly
	if maxI := uint32(1)<<uint(t.Z) - 1; t.X < maxI {
		nb := maptile.Tile{X: t.X + 1, Y: t.Y, Z: t.Z}.Bound()
		if !bitsEq(tb.Max[0], nb.Min[0]) || !bitsEq(tb.Min[1], nb.Min[1]) || !bitsEq(tb.Max[1], nb.Max[1]) {
			fail("right neighbour does not share the edge coordinates exactly", map[string]interface{}{"bound": sv(tb), "neighbour": sv(nb)})
		}
	}
	if maxI := uint32(1)<<uint(t.Z) - 1; t.Y < maxI {
		nb := maptile.Tile{X: t.X, Y: t.Y + 1, Z: t.Z}.Bound()
		if !bitsEq(tb.Min[1], nb.Max[1]) || !bitsEq(tb.Min[0], nb.Min[0]) || !bitsEq(tb.Max[0], nb.Max[0]) {
			fail("lower neighbour does not share the edge coordinates exactly", map[string]interface{}{"bound": sv(tb), "neighbour": sv(nb)})
		}
	}
	if !(tb.Min[0] < tb.Max[0] && tb.Min[1] < tb.Max[1]) {
		fail("tile bound is not a proper box", sv(tb))
	}
}

func c13pair(c *h.Ctx, a, b maptile.Tile) {
	got := a.Contains(b)
	c.Eval()
	if want := refIsAncestorOrSelf(a, b); got != want {
		c.Fail("", "Contains disagrees with the ancestor-or-self relation", map[string]interface{}{"a": sv(a), "b": sv(b), "got": got})
	}
	sp := a.SharedParent(b)
	c.Eval()
	// reference: bring to the same zoom, walk up until equal
	x, y := a, b
	if x.Z > y.Z {
		x = refAncestor(x, y.Z)
	} else {
		y = refAncestor(y, x.Z)
	}
	for x != y {
		x, y = refAncestor(x, x.Z-1), refAncestor(y, y.Z-1)
	}
	if sp != x {
		c.Fail("", "SharedParent is not the deepest common ancestor", map[string]interface{}{"a": sv(a), "b": sv(b), "got": sv(sp), "want": sv(x)})
	}
	if sp2 := b.SharedParent(a); sp2 != sp {
		c.Fail("", "SharedParent is not symmetric", map[string]interface{}{"a": sv(a), "b": sv(b), "ab": sv(sp), "ba": sv(sp2)})
	}
}

func tileByIndex(i uint64) maptile.Tile {
	// tiles in order of zoom: 1 + 4 + 16 + ...
	z := uint(0)
	for {
		n := uint64(1) << (2 * z)
		if i < n {
			return maptile.Tile{X: uint32(i % (1 << z)), Y: uint32(i / (1 << z)), Z: maptile.Zoom(z)}
		}
		i -= n
		z++
	}
}

func randTile(r *h.Rand, maxZ int) maptile.Tile {
	z := uint(r.Intn(maxZ + 1))
	m := uint64(1) << z
	t := maptile.Tile{X: uint32(r.Uint64() % m), Y: uint32(r.Uint64() % m), Z: maptile.Zoom(z)}
	switch r.Intn(8) { // edges of the world
	case 0:
		t.X = 0
	case 1:
		t.X = uint32(m - 1)
	case 2:
		t.Y = 0
	case 3:
		t.Y = uint32(m - 1)
	case 4: // the first / last few rows (beyond the clamp latitude at high zoom)
		t.Y = uint32(r.Uint64() % 200 % m)
		if r.Bool() {
			t.Y = uint32(m-1) - t.Y
		}
	}
	return t
}

func init() {
	h.Register(&h.Monitor{
		ID: "C13",
		Rule: "every tile with zoom <= 8 (87381 tiles: quadkey, children, parent, siblings, exact bound tiling, ranges, descendants, centre, At on all four corners at three zooms, exact shared edges with neighbours), every ordered pair of tiles with zoom <= 4 (116281 pairs: Contains, SharedParent), random tiles and related pairs up to zoom 30, random and hostile points (antimeridian, poles, beyond the mercator latitude, tile corners). " +
			"non-trivial = zoom >= 1; distinct = (x,y,z) or the point's bits",
		MinNontrivial: h.Fixed(100000, 1000000),
		Assumptions: []string{
			"At(p).Bound() containing p is demanded strictly for tile-corner points at zoom <= 9 and with a slack of 1e-9 tile + 1e-10 degrees otherwise (Fraction and Bound go through log/atan/exp in opposite directions)",
			"latitudes are clamped to +-85.0511 before the containment test, as documented",
		},
		Subs: []h.Sub{
			{
				Name: "tiles-to-zoom-8", Count: h.Fixed(87381, 87381), Exhaustive: h.Always,
				Run: func(c *h.Ctx, idx uint64, r *h.Rand) {
					t := tileByIndex(idx)
					c13tile(c, t, true, r)
					if t.Z >= 1 {
						c.Nontrivial(h.Mix(uint64(t.X), uint64(t.Y), uint64(t.Z)))
						if t.Z == 5 {
							c.Sample(map[string]interface{}{"tile": sv(t), "bound": sv(t.Bound())})
						}
					}
				},
			},
			{
				Name: "pairs-to-zoom-4", Count: h.Fixed(341, 341), Exhaustive: h.Always,
				Run: func(c *h.Ctx, idx uint64, r *h.Rand) {
					a := tileByIndex(idx)
					for j := uint64(0); j < 341; j++ {
						c13pair(c, a, tileByIndex(j))
					}
					c.Nontrivial(h.Mix(0xabc, idx))
					c.Sample(map[string]interface{}{"first": sv(a), "second": "all 341 tiles with zoom <= 4"})
				},
			},
			{
				Name: "random-tiles", Count: h.Fixed(200000, 60000000),
				Run: func(c *h.Ctx, idx uint64, r *h.Rand) {
					t := randTile(r, 30)
					c13tile(c, t, false, r)
					// related pairs: an ancestor, a descendant of that ancestor, a random tile
					if t.Z > 0 {
						a := refAncestor(t, maptile.Zoom(r.Intn(int(t.Z)+1)))
						c13pair(c, a, t)
						c13pair(c, t, a)
						// cousin: descendant of a, same depth as t
						d := uint(t.Z - a.Z)
						cz := maptile.Tile{X: a.X<<d | uint32(r.Uint64()&(1<<d-1)), Y: a.Y<<d | uint32(r.Uint64()&(1<<d-1)), Z: t.Z}
						c13pair(c, t, cz)
					}
					c13pair(c, t, randTile(r, 30))
					if t.Z >= 1 {
						c.Nontrivial(h.Mix(uint64(t.X), uint64(t.Y), uint64(t.Z)))
						c.Sample(map[string]interface{}{"tile": sv(t)})
					}
				},
			},
			{
				Name: "points", Count: h.Fixed(200000, 60000000),
				Run: func(c *h.Ctx, idx uint64, r *h.Rand) {
					var p orb.Point
					switch r.Intn(11) {
					case 0:
						p = orb.Point{180, r.Uniform(-90, 90)}
					case 1:
						p = orb.Point{-180, r.Uniform(-90, 90)}
					case 2:
						p = orb.Point{r.Uniform(-180, 180), []float64{90, -90, 85.0511, -85.0511, 85.05112877980659, -85.05112877980659, 85.0512, -85.0512, 0}[r.Intn(9)]}
					case 3: // exact tile corner at a random zoom
						t := randTile(r, 30)
						b := t.Bound()
						p = []orb.Point{b.Min, b.Max, b.LeftTop(), b.RightBottom()}[r.Intn(4)]
					case 4:
						p = orb.Point{float64(r.Range(-180, 180)), float64(r.Range(-90, 90))}
					case 6:
						// a hair inside / outside a tile edge: 1e-10, 1e-12 of a tile width or a few ulps from a corner
						t := randTile(r, 24)
						b := t.Bound()
						p = []orb.Point{b.Min, b.Max, b.LeftTop(), b.RightBottom()}[r.Intn(4)]
						w := b.Max[0] - b.Min[0]
						switch r.Intn(3) {
						case 0:
							p[0] += []float64{-1e-10, 1e-10, -1e-12, 1e-12, -3e-10, 5e-11}[r.Intn(6)] * w
						case 1:
							for k := r.Range(1, 3); k > 0; k-- {
								p[0] = math.Nextafter(p[0], []float64{-1000, 1000}[r.Intn(2)])
							}
						default:
							p[1] += []float64{-1e-10, 1e-10, -1e-12, 1e-12}[r.Intn(4)] * (b.Max[1] - b.Min[1])
						}
						if p[0] < -180 || p[0] > 180 {
							p[0] = math.Max(-180, math.Min(180, p[0]))
						}
						c.Count("points_a_hair_from_a_tile_edge", 1)
					case 5:
						// "any latitude": far beyond the poles, the largest finite values, infinities
						p = orb.Point{r.Uniform(-180, 180), []float64{90.5, 94, 95, 100, 135, 180, 200, 270, 360, 1e6, 1e300, math.MaxFloat64, math.Inf(1)}[r.Intn(13)]}
						if r.Bool() {
							p[1] = -p[1]
						}
						if r.P(1, 4) {
							p[0] = []float64{-180, 180, 0}[r.Intn(3)]
						}
						c.Count("latitudes_far_beyond_the_poles", 1)
					default:
						p = orb.Point{r.Uniform(-180, 180), r.Uniform(-89.9, 89.9)}
					}
					z := maptile.Zoom(r.Intn(31))
					c13point(c, p, z, false)
					f := maptile.Fraction(p, z)
					c.Eval()
					m := float64(uint64(1) << uint(z))
					if !(f[0] >= 0 && f[0] <= m && f[1] >= 0 && f[1] <= m) {
						c.Fail("", "Fraction outside [0, 2^z]", map[string]interface{}{"point": sv(p), "zoom": z, "fraction": sv(f)})
					}
					c.Nontrivial(h.Mix(math.Float64bits(p[0]), math.Float64bits(p[1]), uint64(z)))
					c.Sample(map[string]interface{}{"point": sv(p), "zoom": z, "tile": sv(maptile.At(p, z))})
				},
			},
		},
	})
}
