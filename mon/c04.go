package mon

import (
	"errors"
	"fmt"
	"runtime"
	"strings"
	"sync"
	"sync/atomic"

	"github.com/paulmach/orb"
	"github.com/paulmach/orb/encoding/wkt"

	"verif/internal/gen"
	"verif/internal/h"
	"verif/internal/refmodel"
)

// C04 — WKT text round-trips every geometry with full float precision.

// respell re-emits WKT text with random keyword case and 0..3 blanks at either end and
// next to every '(' , ')' and ','. It never touches the inside of a coordinate pair and
// never the blank between a keyword and EMPTY.
func respell(r *h.Rand, s string) string {
	var b strings.Builder
	sp := func() {
		for n := r.Intn(4); n > 0 && r.Bool(); n-- {
			b.WriteByte(' ')
		}
	}
	mode := r.Intn(3) // 0 keep case, 1 lower, 2 random per letter
	sp()
	for i := 0; i < len(s); i++ {
		ch := s[i]
		switch {
		case ch == '(' || ch == ')' || ch == ',':
			sp()
			b.WriteByte(ch)
			sp()
		case ch >= 'A' && ch <= 'Z':
			// a keyword run (letters); numbers use lower case 'e' only
			j := i
			for j < len(s) && s[j] >= 'A' && s[j] <= 'Z' {
				j++
			}
			for _, l := range []byte(s[i:j]) {
				if mode == 1 || (mode == 2 && r.Bool()) {
					l += 'a' - 'A'
				}
				b.WriteByte(l)
			}
			i = j - 1
		default:
			b.WriteByte(ch)
		}
	}
	sp()
	return b.String()
}

var c04held []byte
var c04heldText string

var c04typed = []struct {
	name string
	kind string
	f    func(string) (orb.Geometry, error)
}{
	{"UnmarshalPoint", "orb.Point", func(s string) (orb.Geometry, error) { g, err := wkt.UnmarshalPoint(s); return g, err }},
	{"UnmarshalMultiPoint", "orb.MultiPoint", func(s string) (orb.Geometry, error) { g, err := wkt.UnmarshalMultiPoint(s); return g, err }},
	{"UnmarshalLineString", "orb.LineString", func(s string) (orb.Geometry, error) { g, err := wkt.UnmarshalLineString(s); return g, err }},
	{"UnmarshalMultiLineString", "orb.MultiLineString", func(s string) (orb.Geometry, error) { g, err := wkt.UnmarshalMultiLineString(s); return g, err }},
	{"UnmarshalPolygon", "orb.Polygon", func(s string) (orb.Geometry, error) { g, err := wkt.UnmarshalPolygon(s); return g, err }},
	{"UnmarshalMultiPolygon", "orb.MultiPolygon", func(s string) (orb.Geometry, error) { g, err := wkt.UnmarshalMultiPolygon(s); return g, err }},
	{"UnmarshalCollection", "orb.Collection", func(s string) (orb.Geometry, error) { g, err := wkt.UnmarshalCollection(s); return g, err }},
}

func init() {
	// zero-vertex rings/lines inside non-empty polygons / multi line strings are outside the
	// domain (no WKT form); empty values and empty collection members are inside it.
	base := func(f func(*h.Rand) float64) *gen.GeomOpts {
		return &gen.GeomOpts{Float: f, Empty: true, EmptyParts: false, RingBound: true, Huge: true, SharedMembers: true}
	}
	expo := func(r *h.Rand) float64 { // weighted towards values printed in exponent form
		switch r.Intn(4) {
		case 0:
			return r.Uniform(-1, 1) * 1e-5 * float64(r.Range(1, 9))
		case 1:
			return r.Uniform(1, 10) * []float64{1e21, 1e22, 1e38, 1e42, 1e47, 1e52, 1e100, 1e300}[r.Intn(8)]
		case 2:
			return float64(r.Range(-9, 9)) * []float64{1e21, 1e-5, 1e40, 1e45}[r.Intn(4)]
		}
		return gen.FloatFinite(r)
	}
	optsFin, optsExp, optsOrd := base(gen.FloatFinite), base(expo), base(gen.FloatOrdinary)

	h.Register(&h.Monitor{
		ID: "C04",
		Rule: "geometries from the grammar (nine kinds, EMPTY values, collections nested to depth 4 with EMPTY members at every position; finite coordinates over the full float64 range, weighted towards magnitudes printed in exponent form, -0, subnormals) marshalled and parsed back through wkt.Unmarshal and the 7 typed functions, as produced and in 5 (quick) / 11 (thorough) re-spellings (keyword case, blanks at either end and next to brackets and commas); rings closed by a zero of the other sign, chains of 10001..12000 nested collections. " +
			"non-trivial = at least one vertex; distinct = hash of the geometry",
		MinNontrivial: h.Fixed(3000, 250000),
		Assumptions: []string{
			"zero-vertex rings/lines inside a non-empty polygon / multi line string / multi polygon and a top-level empty Ring are outside the domain (the writer emits '()', WKT has no such form)",
			"expected value: Ring -> Polygon{ring}, Bound -> its polygon; coordinates compared by bit pattern; empty values compare by kind and length 0",
		},
		Subs: []h.Sub{
			{
				Name: "round-trip-and-respell", Count: h.Fixed(5000, 4000000),
				Run: func(c *h.Ctx, idx uint64, r *h.Rand) {
					o := []*gen.GeomOpts{optsFin, optsExp, optsExp, optsOrd}[r.Intn(4)]
					var g orb.Geometry
					for {
						g = o.Geometry(r, r.Intn(5))
						if rg, ok := g.(orb.Ring); ok && len(rg) == 0 {
							continue
						}
						if hasEmptyRingMember(g) {
							continue
						}
						break
					}
					if r.P(1, 4) {
						c.Count("rings_closed_by_a_zero_of_the_other_sign", int64(zeroSpelledClosure(r, g)))
					}
					want := refmodel.Norm(refmodel.Copy(g))
					var text string
					if pv, st := h.Catch(func() { text = wkt.MarshalString(g) }); pv != nil {
						c.Fail("", "wkt.MarshalString panicked", map[string]interface{}{"geometry": sv(g), "panic": sv(pv), "stack": st})
						return
					}
					mb := wkt.Marshal(g)
					if string(mb) != text {
						c.Fail("", "wkt.Marshal and MarshalString differ", map[string]interface{}{"geometry": sv(g)})
					}
					// the bytes returned by Marshal stay the caller's: hold the previous case's output across this marshal
					if c04held != nil && string(c04held) != c04heldText {
						c.Fail("", "bytes returned by an earlier wkt.Marshal call were overwritten by a later marshal", map[string]interface{}{"earlier_output_now": string(c04held), "earlier_output_then": c04heldText})
					}
					c04held, c04heldText = mb, text
					c.Evals(2)
					nsp := 5
					if c.Thorough() {
						nsp = 11
					}
					wantKind := refmodel.KindName(want)
					for s := 0; s <= nsp; s++ {
						t := text
						if s > 0 {
							t = respell(r, text)
						}
						d := func() map[string]interface{} {
							return map[string]interface{}{"kind": refmodel.KindName(g), "geometry": sv(g), "text": t, "produced_text": text}
						}
						var got orb.Geometry
						var err error
						if pv, st := h.Catch(func() { got, err = wkt.Unmarshal(t) }); pv != nil {
							c.Fail("", "wkt.Unmarshal panicked", map[string]interface{}{"case": d(), "panic": sv(pv), "stack": st})
							break
						}
						c.Eval()
						if err != nil {
							c.Fail("", "parsing the produced text (or a re-spelling of it) failed", map[string]interface{}{"case": d(), "err": err.Error()})
							break
						}
						if !refmodel.EqualBits(got, want) {
							c.Fail("", "parsed geometry differs from the marshalled one (kind, nesting or coordinate bits)", map[string]interface{}{"case": d(), "got": sv(got), "got_kind": refmodel.KindName(got)})
							break
						}
						if !partsIndependent(got) {
							c.Fail("", "parts of one parsed geometry share memory: appending to one part overwrites another", map[string]interface{}{"case": d(), "now": sv(got)})
							break
						}
						// typed functions: accept exactly their own kind
						bad := false
						for _, tf := range c04typed {
							var tg orb.Geometry
							var terr error
							if pv, st := h.Catch(func() { tg, terr = tf.f(t) }); pv != nil {
								c.Fail("", "wkt."+tf.name+" panicked", map[string]interface{}{"case": d(), "panic": sv(pv), "stack": st})
								bad = true
								break
							}
							c.Eval()
							if tf.kind == wantKind {
								if terr != nil || !refmodel.EqualBits(tg, want) {
									c.Fail("", "wkt."+tf.name+" does not accept the text of its own kind (or returns a different value)", map[string]interface{}{"case": d(), "err": sv(terr), "got": sv(tg)})
									bad = true
									break
								}
							} else if !errors.Is(terr, wkt.ErrIncorrectGeometry) {
								c.Fail("", "wkt."+tf.name+" does not report ErrIncorrectGeometry for text of another kind", map[string]interface{}{"case": d(), "err": sv(terr), "got": sv(tg)})
								bad = true
								break
							}
						}
						if bad {
							break
						}
					}
					if refmodel.NumVertices(g) > 0 {
						c.Nontrivial(refmodel.Hash(g))
						c.Sample(map[string]interface{}{"kind": refmodel.KindName(g), "text": text, "respelled": respell(r, text)})
					}
				},
			},
			{
				// the parse functions are functions of their argument: texts of different kinds parsed by several goroutines at the
				// same time give what they give one after the other (the library keeps no state between calls that could say otherwise)
				Name: "parses-at-the-same-time", Count: h.Fixed(40, 4000), BudgetSec: 60,
				Run: func(c *h.Ctx, idx uint64, r *h.Rand) {
					type job struct {
						text string
						tf   int // index into c04typed, -1: wkt.Unmarshal
						want orb.Geometry
						err  error
					}
					var jobs []job
					for len(jobs) < 24 {
						g := optsOrd.Geometry(r, r.Intn(3))
						if rg, ok := g.(orb.Ring); ok && len(rg) == 0 || hasEmptyRingMember(g) {
							continue
						}
						text := respell(r, wkt.MarshalString(g))
						j := job{text: text, tf: r.Intn(len(c04typed)+1) - 1}
						if j.tf < 0 {
							j.want, j.err = wkt.Unmarshal(text)
						} else {
							j.want, j.err = c04typed[j.tf].f(text)
						}
						jobs = append(jobs, j)
					}
					prev := runtime.GOMAXPROCS(8)
					defer runtime.GOMAXPROCS(prev)
					var wg sync.WaitGroup
					var bad int64
					var first atomic.Value
					start := make(chan struct{})
					for gi := 0; gi < 8; gi++ {
						wg.Add(1)
						go func(gi int) {
							defer wg.Done()
							<-start
							for rep := 0; rep < 150; rep++ {
								j := &jobs[(gi*7+rep)%len(jobs)]
								var got orb.Geometry
								var err error
								if j.tf < 0 {
									got, err = wkt.Unmarshal(j.text)
								} else {
									got, err = c04typed[j.tf].f(j.text)
								}
								if (err == nil) != (j.err == nil) || (err != nil && err.Error() != j.err.Error()) || (err == nil && !refmodel.EqualBits(got, j.want)) {
									if atomic.AddInt64(&bad, 1) == 1 {
										first.Store(fmt.Sprintf("text %q (parser %d): alone %v / %v, at the same time as other parses %v / %v", j.text, j.tf, sv(j.want), j.err, sv(got), err))
									}
								}
							}
						}(gi)
					}
					close(start)
					wg.Wait()
					c.Evals(8 * 150)
					if bad > 0 {
						f, _ := first.Load().(string)
						c.Fail("", "a parse gives a different result when other parses run at the same time", map[string]interface{}{"differences": bad, "first": f})
					}
					c.Count("parses_run_concurrently", 8*150)
					c.Nontrivial(c.CaseHash())
				},
			},
			{
				// "collections nested to any depth": more than ten thousand collections open at one place (where encoding/json
				// gives up; the writer produces the text and the parser has no such limit - each level costs a scan of the
				// remaining text, about a second per parse here)
				Name: "collections-nested-beyond-ten-thousand", Count: h.Fixed(2, 24), BudgetSec: 240,
				Run: func(c *h.Ctx, idx uint64, r *h.Rand) {
					depth := []int{10001, 10240, 10002, 12000}[idx%4]
					var g orb.Geometry = orb.Point{float64(r.Range(-90, 90)), r.Float64()}
					if r.Bool() {
						g = orb.LineString{{1, 2}, {r.Float64(), 4}}
					}
					for i := 0; i < depth; i++ {
						g = orb.Collection{g}
					}
					text := wkt.MarshalString(g)
					var got orb.Geometry
					var err error
					if r.Bool() {
						got, err = wkt.Unmarshal(text)
					} else {
						got, err = wkt.UnmarshalCollection(text)
					}
					c.Eval()
					if err != nil || !refmodel.EqualBits(got, g) {
						c.Fail("", "parsing the produced text of a deeply nested collection failed or gives a different geometry", map[string]interface{}{"collections_open_at_one_place": depth, "err": sv(err)})
					}
					c.Max("collections open at one place", float64(depth), nil)
					c.Nontrivial(h.Mix(uint64(depth), refmodel.Hash(g)))
				},
			},
		},
	})
}

// hasEmptyRingMember reports a top-level-empty Ring used as a collection member (it marshals as POLYGON(())).
func hasEmptyRingMember(g orb.Geometry) bool {
	if c, ok := g.(orb.Collection); ok {
		for _, m := range c {
			if rg, ok := m.(orb.Ring); ok && len(rg) == 0 {
				return true
			}
			if hasEmptyRingMember(m) {
				return true
			}
		}
	}
	return false
}
