package mon

import (
	"bytes"
	"database/sql/driver"
	"encoding/binary"
	"encoding/hex"
	"errors"
	"fmt"
	"io"
	"strings"
	"testing/iotest"

	"github.com/paulmach/orb"
	"github.com/paulmach/orb/encoding/ewkb"
	"github.com/paulmach/orb/encoding/wkb"

	"verif/internal/gen"
	"verif/internal/h"
	"verif/internal/refmodel"
)

// C01 — WKB/EWKB encode-decode is lossless; every decode path agrees.

var c01destNames = []string{"nil", "*Point", "*MultiPoint", "*LineString", "*MultiLineString", "*Ring", "*Polygon", "*MultiPolygon", "*Collection", "*Bound"}

// c01expect is the documented coercion table: what scanning value v into destination k must give.
func c01expect(v orb.Geometry, k int) (orb.Geometry, bool) {
	switch k {
	case 0:
		return v, true
	case 1:
		switch x := v.(type) {
		case orb.Point:
			return x, true
		case orb.MultiPoint:
			if len(x) == 1 {
				return x[0], true
			}
		}
	case 2:
		switch x := v.(type) {
		case orb.Point:
			return orb.MultiPoint{x}, true
		case orb.MultiPoint:
			return x, true
		}
	case 3:
		switch x := v.(type) {
		case orb.LineString:
			return x, true
		case orb.MultiLineString:
			if len(x) == 1 {
				return x[0], true
			}
		}
	case 4:
		switch x := v.(type) {
		case orb.LineString:
			return orb.MultiLineString{x}, true
		case orb.MultiLineString:
			return x, true
		}
	case 5:
		if x, ok := v.(orb.Polygon); ok && len(x) == 1 {
			return x[0], true
		}
	case 6:
		switch x := v.(type) {
		case orb.Polygon:
			return x, true
		case orb.MultiPolygon:
			if len(x) == 1 {
				return x[0], true
			}
		}
	case 7:
		switch x := v.(type) {
		case orb.Polygon:
			return orb.MultiPolygon{x}, true
		case orb.MultiPolygon:
			return x, true
		}
	case 8:
		if x, ok := v.(orb.Collection); ok {
			return x, true
		}
	case 9:
		return v.Bound(), true
	}
	return nil, false
}

type c01dest struct {
	p   orb.Point
	mp  orb.MultiPoint
	ls  orb.LineString
	mls orb.MultiLineString
	r   orb.Ring
	pg  orb.Polygon
	mpg orb.MultiPolygon
	c   orb.Collection
	b   orb.Bound
}

func (d *c01dest) ptr(k int) interface{} {
	switch k {
	case 1:
		return &d.p
	case 2:
		return &d.mp
	case 3:
		return &d.ls
	case 4:
		return &d.mls
	case 5:
		return &d.r
	case 6:
		return &d.pg
	case 7:
		return &d.mpg
	case 8:
		return &d.c
	case 9:
		return &d.b
	}
	return nil
}

func (d *c01dest) val(k int) orb.Geometry {
	switch k {
	case 1:
		return d.p
	case 2:
		return d.mp
	case 3:
		return d.ls
	case 4:
		return d.mls
	case 5:
		return d.r
	case 6:
		return d.pg
	case 7:
		return d.mpg
	case 8:
		return d.c
	case 9:
		return d.b
	}
	return nil
}

func orderName(o binary.ByteOrder) string {
	if o == binary.ByteOrder(binary.LittleEndian) {
		return "little"
	}
	return "big"
}

func frame(data []byte, kind int) []byte {
	switch kind {
	case 0:
		return append([]byte{}, data...)
	case 1:
		return []byte(hex.EncodeToString(data))
	case 2:
		return []byte(strings.ToUpper(hex.EncodeToString(data)))
	default:
		return []byte("\\x" + hex.EncodeToString(data))
	}
}

var frameNames = []string{"raw", "hex", "HEX", "\\x-hex", "srid-prefix"}

func sameBoundBits(a, b orb.Geometry) bool { return refmodel.EqualBits(a, b) }

func init() {
	opts := &gen.GeomOpts{Float: gen.FloatAll, Empty: true, EmptyParts: true, RingBound: true, SharedMembers: true}
	srids := []int{1, 4326, 255, 256, 257, 0x3030, 0x3130, 0x785c, 3857, 1<<31 - 1, 0x01000000, 65536}

	h.Register(&h.Monitor{
		ID: "C01",
		Rule: "geometries from the grammar (nine kinds, empty values and members, top-level nil-slice values, collections nested to depth 4, occasional 40+ element members; coordinates from all float64 bit patterns incl. NaN payloads, infinities, -0, subnormals) x byte order {little, big} x SRID {absent, 1, 4326, 255, 256, 257, 0x3030, 0x3130, 0x785c, 3857, 2^31-1, 2^24, 65536, random}; every encoder entry (Marshal, MustMarshal, MarshalToHex, Encoder, Value, ValuePrefixSRID) and every decode path (Unmarshal, stream decoder over a plain / one-byte / concatenated reader, Scanner x 10 destinations x {raw, hex, HEX, \\x-hex, 4-byte SRID prefix}) of both packages. " +
			"non-trivial = at least one vertex; distinct = hash of (geometry, byte order, srid)",
		MinNontrivial: h.Fixed(2500, 200000),
		Assumptions: []string{
			"expected value: Ring -> Polygon{ring}, Bound -> its polygon (also inside collections); nil and empty slices both have length 0; coordinates compared by bit pattern",
			"the coercion table is written from the documentation of the Scan functions",
			"members are never nil (quantifier); nil-slice values only at top level",
		},
		Subs: []h.Sub{
			{
				Name: "round-trip-all-paths", Count: h.Fixed(4000, 2500000),
				Run: func(c *h.Ctx, idx uint64, r *h.Rand) {
					depth := r.Intn(5)
					if c.Thorough() && r.P(1, 10) {
						depth = 6
					}
					g := opts.Geometry(r, depth)
					if r.P(1, 15) {
						// typed nil value at top level
						switch r.Intn(7) {
						case 0:
							g = orb.MultiPoint(nil)
						case 1:
							g = orb.LineString(nil)
						case 2:
							g = orb.MultiLineString(nil)
						case 3:
							g = orb.Ring(nil)
						case 4:
							g = orb.Polygon(nil)
						case 5:
							g = orb.MultiPolygon(nil)
						default:
							g = orb.Collection(nil)
						}
					}
					if r.P(1, 40) {
						g = nil
					}
					snap := refmodel.Copy(g)
					want := refmodel.Norm(refmodel.Copy(g))
					isNil := g == nil
					if !isNil {
						switch x := g.(type) {
						case orb.MultiPoint:
							isNil = x == nil
						case orb.LineString:
							isNil = x == nil
						case orb.MultiLineString:
							isNil = x == nil
						case orb.Ring:
							isNil = x == nil
						case orb.Polygon:
							isNil = x == nil
						case orb.MultiPolygon:
							isNil = x == nil
						case orb.Collection:
							isNil = x == nil
						}
					}
					order := []binary.ByteOrder{binary.LittleEndian, binary.BigEndian}[r.Intn(2)]
					for pass := 0; pass < 3; pass++ {
						srid := 0
						if pass > 0 {
							srid = srids[r.Intn(len(srids))]
							if r.P(1, 4) {
								srid = 1 + r.Intn(1<<31-1)
							}
						}
						if pass == 2 {
							if order == binary.ByteOrder(binary.LittleEndian) {
								order = binary.BigEndian
							} else {
								order = binary.LittleEndian
							}
						}
						c01one(c, r, g, snap, want, isNil, order, srid)
					}
					if refmodel.NumVertices(g) > 0 {
						c.Nontrivial(h.Mix(refmodel.Hash(g), uint64(depth)))
						c.Sample(map[string]interface{}{"kind": refmodel.KindName(g), "geometry": sv(g)})
					}
				},
			},
			{
				// the decoders cap their up-front allocation (10000 points, 100 parts) and grow beyond it
				Name: "beyond-allocation-caps", Count: h.Fixed(40, 4000), BudgetSec: 60,
				Run: func(c *h.Ctx, idx uint64, r *h.Rand) {
					sizes := []int{9999, 10000, 10001, 10002, 10240, 16384, 16385, 20001}
					parts := []int{99, 100, 101, 102, 128, 129, 200, 257}
					n := sizes[r.Intn(len(sizes))]
					k := parts[r.Intn(len(parts))]
					if r.P(1, 4) {
						n = 10001 + r.Intn(9000)
						k = 101 + r.Intn(300)
					}
					seq := 0.0
					pt := func() orb.Point {
						seq++
						return orb.Point{seq, -seq + r.Float64()}
					}
					pts := func(m int) []orb.Point {
						out := make([]orb.Point, m)
						for i := range out {
							out[i] = pt()
						}
						return out
					}
					small := func() int { return 1 + r.Intn(4) }
					ring := func(m int) orb.Ring {
						ps := pts(m)
						ps = append(ps, ps[0])
						return orb.Ring(ps)
					}
					var g orb.Geometry
					shape := int(idx % 10)
					switch shape {
					case 0:
						g = orb.LineString(pts(n))
					case 1:
						g = orb.MultiPoint(pts(n))
					case 2:
						g = orb.Polygon{ring(n)}
					case 3:
						p := make(orb.Polygon, k)
						for i := range p {
							p[i] = ring(2 + small())
						}
						g = p
					case 4:
						m := make(orb.MultiLineString, k)
						for i := range m {
							m[i] = orb.LineString(pts(small()))
						}
						g = m
					case 5:
						m := make(orb.MultiPolygon, k)
						for i := range m {
							m[i] = orb.Polygon{ring(2 + small())}
						}
						g = m
					case 6:
						m := make(orb.Collection, k)
						for i := range m {
							switch r.Intn(4) {
							case 0:
								m[i] = pt()
							case 1:
								m[i] = orb.LineString(pts(small()))
							case 2:
								m[i] = orb.MultiPoint(pts(small()))
							default:
								m[i] = orb.Polygon{ring(2 + small())}
							}
						}
						g = m
					case 7:
						// a large member at a random place among many members
						m := make(orb.MultiLineString, k)
						big := r.Intn(k)
						for i := range m {
							if i == big {
								m[i] = orb.LineString(pts(n))
							} else {
								m[i] = orb.LineString(pts(small()))
							}
						}
						g = m
					case 8:
						p := make(orb.Polygon, k)
						big := r.Intn(k)
						for i := range p {
							if i == big {
								p[i] = ring(n)
							} else {
								p[i] = ring(2 + small())
							}
						}
						g = orb.MultiPolygon{{ring(3)}, p, {ring(3)}}
					default:
						g = orb.Collection{orb.MultiPoint(pts(n)), orb.Collection{orb.LineString(pts(n))}, pt()}
					}
					snap := refmodel.Copy(g)
					want := refmodel.Norm(refmodel.Copy(g))
					order := []binary.ByteOrder{binary.LittleEndian, binary.BigEndian}[r.Intn(2)]
					srid := 0
					if r.Bool() {
						srid = srids[r.Intn(len(srids))]
					}
					c01one(c, r, g, snap, want, false, order, srid)
					c.Nontrivial(h.Mix(uint64(shape), uint64(n), uint64(k), refmodel.Hash(g)))
					c.Max("vertices in one geometry", float64(refmodel.NumVertices(g)), nil)
					c.Sample(map[string]interface{}{"shape": shape, "points": n, "parts": k, "kind": refmodel.KindName(g)})
				},
			},
			{
				// "collections nested to any depth": chains of more than ten thousand collections (the depth at which
				// encoding/json and protobuf give up; these codecs have no such limit and the encoder writes them)
				Name: "collections-nested-beyond-ten-thousand", Count: h.Fixed(6, 120), BudgetSec: 120,
				Run: func(c *h.Ctx, idx uint64, r *h.Rand) {
					depth := []int{10001, 10000, 10002, 12345, 16385, 9999}[idx%6]
					var g orb.Geometry = orb.Point{float64(r.Range(-90, 90)), r.Float64()}
					if r.Bool() {
						g = orb.LineString{{1, 2}, {r.Float64(), 4}}
					}
					for i := 0; i < depth; i++ {
						if i == depth/2 && r.Bool() {
							g = orb.Collection{orb.Point{5, 6}, g}
							continue
						}
						g = orb.Collection{g}
					}
					snap := refmodel.Copy(g)
					want := refmodel.Norm(refmodel.Copy(g))
					order := []binary.ByteOrder{binary.LittleEndian, binary.BigEndian}[r.Intn(2)]
					srid := 0
					if r.Bool() {
						srid = srids[r.Intn(len(srids))]
					}
					c01one(c, r, g, snap, want, false, order, srid)
					c.Nontrivial(h.Mix(uint64(depth), refmodel.Hash(g)))
					c.Max("collections open at one place", float64(depth), nil)
				},
			},
		},
	})
}

var c01held, c01heldCopy []byte
var c01heldG, c01heldWant orb.Geometry

var c01longDst c01dest
var c01longRet [10]retained

// the long-lived encoders write through this: it can be told to fail after a number of bytes
type c01flakyWriter struct {
	buf       *bytes.Buffer
	failAfter int // < 0: never
	n         int
}

func (w *c01flakyWriter) Write(p []byte) (int, error) {
	if w.failAfter >= 0 && w.n+len(p) > w.failAfter {
		k := w.failAfter - w.n
		if k < 0 {
			k = 0
		}
		w.buf.Write(p[:k])
		w.n += k
		return k, errors.New("injected write failure")
	}
	w.n += len(p)
	return w.buf.Write(p)
}

var c01flaky = c01flakyWriter{failAfter: -1}

// long-lived objects reused across all cases of a worker
var c01hist = func() *struct {
	buf   bytes.Buffer
	wenc  *wkb.Encoder
	eenc  *ewkb.Encoder
	escan *ewkb.GeometryScanner
	wscan *wkb.GeometryScanner
} {
	x := &struct {
		buf   bytes.Buffer
		wenc  *wkb.Encoder
		eenc  *ewkb.Encoder
		escan *ewkb.GeometryScanner
		wscan *wkb.GeometryScanner
	}{}
	x.wenc = wkb.NewEncoder(&c01flaky)
	x.eenc = ewkb.NewEncoder(&c01flaky)
	c01flaky.buf = &x.buf
	x.escan = ewkb.Scanner(nil)
	x.wscan = wkb.Scanner(nil)
	return x
}()

func c01one(c *h.Ctx, r *h.Rand, g, snap, want orb.Geometry, isNil bool, order binary.ByteOrder, srid int) {
	d := func() map[string]interface{} {
		return map[string]interface{}{"kind": refmodel.KindName(g), "geometry": sv(snap), "order": orderName(order), "srid": srid}
	}
	fail := func(key, msg string, extra interface{}) {
		c.Fail(key, msg, map[string]interface{}{"case": d(), "detail": extra})
	}
	// ---------- encode
	var wdata, edata []byte
	var err error
	if pv, st := h.Catch(func() { wdata, err = wkb.Marshal(g, order) }); pv != nil || err != nil {
		fail("", "wkb.Marshal failed or panicked", map[string]interface{}{"panic": sv(pv), "err": sv(err), "stack": st})
		return
	}
	if pv, st := h.Catch(func() { edata, err = ewkb.Marshal(g, srid, order) }); pv != nil || err != nil {
		fail("", "ewkb.Marshal failed or panicked", map[string]interface{}{"panic": sv(pv), "err": sv(err), "stack": st})
		return
	}
	c.Evals(2)
	if !refmodel.EqualBits(g, snap) {
		fail("", "Marshal modified its argument", nil)
	}
	if isNil {
		if wdata != nil || edata != nil {
			fail("", "a nil geometry did not encode to no bytes", map[string]interface{}{"wkb": hex.EncodeToString(wdata), "ewkb": hex.EncodeToString(edata)})
		}
		// scanners: NULL
		s := wkb.Scanner(nil)
		if err := s.Scan(wdata); err != nil || s.Valid || s.Geometry != nil {
			fail("", "wkb.Scanner on nil data is not an invalid (NULL) result without error", sv(err))
		}
		es := ewkb.Scanner(nil)
		if err := es.Scan(edata); err != nil || es.Valid || es.Geometry != nil {
			fail("", "ewkb.Scanner on nil data is not an invalid (NULL) result without error", sv(err))
		}
		if v, err := wkb.Value(g).Value(); v != nil || err != nil {
			fail("", "wkb.Value of a nil geometry is not (nil, nil)", sv(v))
		}
		if v, err := ewkb.Value(g, srid).Value(); v != nil || err != nil {
			fail("", "ewkb.Value of a nil geometry is not (nil, nil)", sv(v))
		}
		if v, err := ewkb.ValuePrefixSRID(g, srid).Value(); v != nil || err != nil {
			fail("", "ewkb.ValuePrefixSRID of a nil geometry is not (nil, nil)", sv(v))
		}
		return
	}
	if len(wdata) == 0 || len(edata) == 0 {
		fail("", "a non-nil geometry encoded to no bytes", nil)
		return
	}
	// other encoder entry points give the same bytes
	if m := wkb.MustMarshal(g, order); !bytes.Equal(m, wdata) {
		fail("", "wkb.MustMarshal differs from Marshal", nil)
	}
	if hx, err := wkb.MarshalToHex(g, order); err != nil || hx != hex.EncodeToString(wdata) {
		fail("", "wkb.MarshalToHex is not the hex of Marshal", nil)
	}
	var buf bytes.Buffer
	if err := wkb.NewEncoder(&buf).SetByteOrder(order).Encode(g); err != nil || !bytes.Equal(buf.Bytes(), wdata) {
		fail("", "wkb.Encoder output differs from Marshal", nil)
	}
	if m := ewkb.MustMarshal(g, srid, order); !bytes.Equal(m, edata) {
		fail("", "ewkb.MustMarshal differs from Marshal", nil)
	}
	if hx, err := ewkb.MarshalToHex(g, srid, order); err != nil || hx != hex.EncodeToString(edata) {
		fail("", "ewkb.MarshalToHex is not the hex of Marshal", nil)
	}
	buf.Reset()
	if err := ewkb.NewEncoder(&buf).SetByteOrder(order).SetSRID(srid).Encode(g); err != nil || !bytes.Equal(buf.Bytes(), edata) {
		fail("", "ewkb.Encoder output differs from Marshal", nil)
	}
	buf.Reset()
	if err := ewkb.NewEncoder(&buf).SetByteOrder(order).SetSRID(77).Encode(g, srid); err != nil || !bytes.Equal(buf.Bytes(), edata) {
		fail("", "ewkb.Encoder.Encode(g, srid) does not override the default srid", nil)
	}
	if srid == 0 && !bytes.Equal(edata, wdata) {
		fail("", "ewkb without SRID is not plain wkb", nil)
	}
	c.Evals(7)
	var dv driver.Value
	if dv, err = wkb.Value(g).Value(); err != nil || !bytes.Equal(dv.([]byte), wkb.MustMarshal(g)) {
		fail("", "wkb.Value differs from Marshal with the default byte order", sv(err))
	}
	if dv, err = ewkb.Value(g, srid).Value(); err != nil || !bytes.Equal(dv.([]byte), ewkb.MustMarshal(g, srid)) {
		fail("", "ewkb.Value differs from Marshal with the default byte order", sv(err))
	}
	var pdata []byte
	if dv, err = ewkb.ValuePrefixSRID(g, srid).Value(); err != nil {
		fail("", "ewkb.ValuePrefixSRID failed", sv(err))
	} else {
		pdata = dv.([]byte)
		if len(pdata) < 4 || binary.LittleEndian.Uint32(pdata) != uint32(srid) || !bytes.Equal(pdata[4:], wkb.MustMarshal(g)) {
			fail("", "ewkb.ValuePrefixSRID is not a 4 byte little endian SRID followed by plain WKB", nil)
		}
	}

	// the byte order left unsaid is the package's DefaultByteOrder, whatever it has been set to; a new ewkb encoder
	// starts with DefaultSRID
	if r.P(1, 8) {
		oldW, oldE, oldS := wkb.DefaultByteOrder, ewkb.DefaultByteOrder, ewkb.DefaultSRID
		wkb.DefaultByteOrder, ewkb.DefaultByteOrder = order, order
		ewkb.DefaultSRID = srid
		d1, e1 := wkb.Marshal(g)
		d2, e2 := ewkb.Marshal(g, srid)
		hx, e3 := wkb.MarshalToHex(g)
		var b3 bytes.Buffer
		e4 := ewkb.NewEncoder(&b3).Encode(g)
		var b4 bytes.Buffer
		e5 := wkb.NewEncoder(&b4).Encode(g)
		// the SQL Value wrappers have no byte-order argument at all: what they write must scan back to this value and SRID
		vp, e6 := ewkb.ValuePrefixSRID(g, srid).Value()
		vs := ewkb.ScannerPrefixSRID(nil)
		var e7 error = errors.New("ValuePrefixSRID did not return bytes")
		if b, ok := vp.([]byte); ok {
			e7 = vs.Scan(append([]byte{}, b...))
		}
		ve, e8 := ewkb.Value(g, srid).Value()
		es2 := ewkb.Scanner(nil)
		var e9 error = errors.New("ewkb.Value did not return bytes")
		if b, ok := ve.([]byte); ok {
			e9 = es2.Scan(append([]byte{}, b...))
		}
		wkb.DefaultByteOrder, ewkb.DefaultByteOrder, ewkb.DefaultSRID = oldW, oldE, oldS
		if e6 != nil || e7 != nil || e8 != nil || e9 != nil || !refmodel.EqualBits(vs.Geometry, want) || vs.SRID != srid || !refmodel.EqualBits(es2.Geometry, want) || es2.SRID != srid {
			fail("", "with DefaultByteOrder set to this case's byte order, what ewkb.Value / ValuePrefixSRID write does not scan back to the value and SRID", map[string]interface{}{"errs": sv([]error{e6, e7, e8, e9}), "prefix_srid": vs.SRID, "srid": es2.SRID, "prefix_geometry": sv(vs.Geometry)})
		}
		if e1 != nil || e2 != nil || e3 != nil || e4 != nil || e5 != nil || !bytes.Equal(d1, wdata) || !bytes.Equal(d2, edata) || hx != hex.EncodeToString(wdata) || !bytes.Equal(b3.Bytes(), edata) || !bytes.Equal(b4.Bytes(), wdata) {
			fail("", "with DefaultByteOrder / DefaultSRID set to this case's values, the entry points that leave them unsaid do not produce the same bytes", map[string]interface{}{"errs": sv([]error{e1, e2, e3, e4, e5})})
		}
		c.Count("cases_with_package_defaults_changed", 1)
		c.Evals(5)
	}

	// bytes returned by an earlier Marshal call stay the caller's
	if c01held != nil && !bytes.Equal(c01held, c01heldCopy) {
		fail("", "bytes returned by an earlier ewkb.Marshal call were overwritten by a later call", nil)
	}
	c01held, c01heldCopy = edata, append([]byte{}, edata...)

	// ---------- long-lived encoders and scanners (one per worker, reused for every case: state must not leak between uses)
	if r.P(1, 5) {
		// an unsuccessful use in between: NULL, garbage, a truncated message, a value of the wrong Go type for the
		// scanners; a writer that fails for the encoders. Whatever they report, the next use must be unaffected.
		var junk interface{}
		switch r.Intn(6) {
		case 0:
			junk = nil
		case 1:
			junk = []byte{}
		case 2:
			junk = append([]byte{}, edata[:r.Intn(len(edata))]...)
		case 3:
			junk = []byte("not wkb at all")
		case 4:
			junk = 42
		default:
			b := append([]byte{}, edata...)
			b[r.Intn(len(b))] ^= byte(1 << uint(r.Intn(8)))
			junk = b
		}
		if pv, st := h.Catch(func() { c01hist.escan.Scan(junk); c01hist.wscan.Scan(junk) }); pv != nil {
			fail("", "a scanner panicked on an unusable value", map[string]interface{}{"value": sv(junk), "panic": sv(pv), "stack": st})
		}
		c01flaky.failAfter = r.Intn(len(edata) + 1)
		c01flaky.n = 0
		c01hist.buf.Reset()
		c01hist.wenc.SetByteOrder(order).Encode(g)
		c01flaky.n = 0
		c01hist.eenc.SetByteOrder(order).SetSRID(srid).Encode(g)
		c01flaky.failAfter = -1
		c.Count("unsuccessful_uses_of_long_lived_objects", 1)
	}
	c01hist.buf.Reset()
	if err := c01hist.wenc.SetByteOrder(order).Encode(g); err != nil || !bytes.Equal(c01hist.buf.Bytes(), wdata) {
		fail("", "a reused wkb.Encoder (SetByteOrder after earlier Encode calls) produces different bytes than Marshal", map[string]interface{}{"err": sv(err), "got": hex.EncodeToString(c01hist.buf.Bytes()), "want": hex.EncodeToString(wdata)})
	}
	c01hist.buf.Reset()
	if err := c01hist.eenc.SetByteOrder(order).SetSRID(srid).Encode(g); err != nil || !bytes.Equal(c01hist.buf.Bytes(), edata) {
		fail("", "a reused ewkb.Encoder produces different bytes than Marshal", map[string]interface{}{"err": sv(err), "got": hex.EncodeToString(c01hist.buf.Bytes()), "want": hex.EncodeToString(edata)})
	}
	if err := c01hist.escan.Scan(append([]byte{}, edata...)); err != nil || !c01hist.escan.Valid || c01hist.escan.SRID != srid || !refmodel.EqualBits(c01hist.escan.Geometry, want) {
		fail("", "a reused ewkb.GeometryScanner does not report this input's value and SRID", map[string]interface{}{"err": sv(err), "srid": c01hist.escan.SRID, "got": sv(c01hist.escan.Geometry)})
	}
	if err := c01hist.wscan.Scan(append([]byte{}, wdata...)); err != nil || !c01hist.wscan.Valid || !refmodel.EqualBits(c01hist.wscan.Geometry, want) {
		fail("", "a reused wkb.GeometryScanner does not report this input's value", map[string]interface{}{"err": sv(err), "got": sv(c01hist.wscan.Geometry)})
	}
	c.Evals(4)

	// ---------- byte slice and stream decoders
	check := func(path string, got orb.Geometry, gotSRID, wantSRID int, err error) bool {
		c.Eval()
		if err != nil {
			fail("", path+": decoding what the encoder produced failed", err.Error())
			return false
		}
		if !refmodel.EqualBits(got, want) {
			fail("", path+": decoded geometry differs from the encoded one (kind, nesting or coordinate bits)", map[string]interface{}{"got_kind": refmodel.KindName(got), "got": sv(got)})
			return false
		}
		if gotSRID != wantSRID {
			fail("", path+": SRID differs from the one written", map[string]interface{}{"got": gotSRID, "want": wantSRID})
			return false
		}
		if re, err := wkb.Marshal(got, order); err != nil || !bytes.Equal(re, wdata) {
			// (kind, nesting, coordinate bits and the difference between an empty value and no value all show here)
			fail("", path+": the decoded value does not encode to the bytes it was decoded from", map[string]interface{}{"err": sv(err), "re_encoded": hex.EncodeToString(re), "original": hex.EncodeToString(wdata), "decoded": fmt.Sprintf("%#v", got)})
			return false
		}
		if !partsIndependent(got) {
			fail("", path+": parts of one decoded geometry share memory (appending to one part overwrites another)", map[string]interface{}{"now": sv(got)})
			return false
		}
		return true
	}
	gw, err := wkb.Unmarshal(append([]byte{}, wdata...))
	if !check("wkb.Unmarshal", gw, 0, 0, err) {
		return
	}
	// a value returned by an earlier Unmarshal stays the caller's: the decodes since then (every path of the previous case,
	// and this one) did not write into it
	if c01heldG != nil && !refmodel.EqualBits(c01heldG, c01heldWant) {
		fail("", "a geometry returned by an earlier wkb.Unmarshal call was changed by later decodes", map[string]interface{}{"earlier_value_now": sv(c01heldG), "earlier_value_then": sv(c01heldWant)})
	}
	c01heldG, c01heldWant = gw, refmodel.Copy(want)
	ge, gs, err := ewkb.Unmarshal(append([]byte{}, edata...))
	if !check("ewkb.Unmarshal", ge, gs, srid, err) {
		return
	}
	gw2, err := wkb.NewDecoder(bytes.NewReader(wdata)).Decode()
	check("wkb.Decoder", gw2, 0, 0, err)
	gw3, err := wkb.NewDecoder(iotest.OneByteReader(bytes.NewReader(wdata))).Decode()
	check("wkb.Decoder(one byte reader)", gw3, 0, 0, err)
	ge2, gs2, err := ewkb.NewDecoder(bytes.NewReader(edata)).Decode()
	check("ewkb.Decoder", ge2, gs2, srid, err)
	ge3, gs3, err := ewkb.NewDecoder(iotest.OneByteReader(bytes.NewReader(edata))).Decode()
	check("ewkb.Decoder(one byte reader)", ge3, gs3, srid, err)
	// k geometries concatenated in one stream
	k := 2 + r.Intn(2)
	var cat []byte
	for i := 0; i < k; i++ {
		cat = append(cat, edata...)
	}
	dec := ewkb.NewDecoder(bytes.NewReader(cat))
	for i := 0; i < k; i++ {
		gi, si, err := dec.Decode()
		if !check(fmt.Sprintf("ewkb.Decoder(concatenated stream, item %d)", i), gi, si, srid, err) {
			break
		}
	}
	if _, _, err := dec.Decode(); err != io.EOF {
		fail("", "stream decoder does not report io.EOF at the end of a concatenated stream", sv(err))
	}

	// the same stream handed to one new decoder per geometry, through a reader that is nothing but an io.Reader (a
	// connection, a file): a decoder takes its own geometry's bytes off the stream and no more, so the next decoder, and
	// whatever the caller frames behind the geometries, find their bytes where they belong
	{
		trailer := []byte("\x00trailer\xff")
		plain := struct{ io.Reader }{bytes.NewReader(append(append([]byte{}, cat...), trailer...))}
		for i := 0; i < k; i++ {
			gi, si, err := ewkb.NewDecoder(plain).Decode()
			if !check(fmt.Sprintf("ewkb.NewDecoder(plain io.Reader holding %d geometries).Decode(), geometry %d", k, i), gi, si, srid, err) {
				break
			}
		}
		if rest, _ := io.ReadAll(plain); !bytes.Equal(rest, trailer) {
			fail("", "a stream decoder took bytes off the stream that lie behind its geometry", map[string]interface{}{"left_on_the_stream": len(rest), "want": len(trailer)})
		}
		plainW := struct{ io.Reader }{io.MultiReader(bytes.NewReader(wdata), iotest.OneByteReader(bytes.NewReader(wdata)), bytes.NewReader(trailer))}
		for i := 0; i < 2; i++ {
			gi, err := wkb.NewDecoder(plainW).Decode()
			if !check(fmt.Sprintf("wkb.NewDecoder(plain io.Reader holding 2 geometries).Decode(), geometry %d", i), gi, 0, 0, err) {
				break
			}
		}
		if rest, _ := io.ReadAll(plainW); !bytes.Equal(rest, trailer) {
			fail("", "a stream decoder took bytes off the stream that lie behind its geometry", map[string]interface{}{"left_on_the_stream": len(rest), "want": len(trailer), "decoder": "wkb"})
		}
	}

	// ---------- scanners x destinations x framings
	// the typed destinations live as long as the worker (the usual "one variable, many rows" loop): what an earlier row left
	// in the caller's hands must not change when a later row is scanned into the same variable
	dst := &c01longDst
	for k := 0; k < 10; k++ {
		exp, ok := c01expect(want, k)
		if k > 0 && ok {
			defer func(k int) {
				c01longRet[k].set(dst.val(k), "scanning a later row into the same "+c01destNames[k]+" destination")
			}(k)
		}
		for fk := 0; fk < 5; fk++ {
			// wkb.Scanner: raw/hex framings of wdata; prefix framing = deprecated MySQL retry
			var in []byte
			if fk < 4 {
				in = frame(wdata, fk)
			} else {
				if srid == 0 {
					continue
				}
				in = make([]byte, 4, 4+len(wdata))
				binary.LittleEndian.PutUint32(in, uint32(srid))
				in = append(in, wkb.MustMarshal(g, order)...)
			}
			s := wkb.Scanner(dst.ptr(k))
			var serr error
			if pv, st := h.Catch(func() { serr = s.Scan(in) }); pv != nil {
				fail("", "wkb.Scanner panicked", map[string]interface{}{"dest": c01destNames[k], "framing": frameNames[fk], "panic": sv(pv), "stack": st})
				continue
			}
			c.Eval()
			key := ""
			if fk == 4 && (srid&0xff == 0 || srid&0xff == 1 || srid&0xffff == 0x785c || srid&0xffff == 0x3030 || srid&0xffff == 0x3130) {
				key = "C01/wkb-scanner-mysql-prefix-ambiguous"
			}
			c01judge(c, fail, key, "wkb.Scanner", k, fk, ok, exp, serr, errors.Is(serr, wkb.ErrIncorrectGeometry), s.Geometry, s.Valid, dst.val(k), 0, 0)

			// ewkb.Scanner / ScannerPrefixSRID
			var es *ewkb.GeometryScanner
			if fk < 4 {
				in = frame(edata, fk)
				es = ewkb.Scanner(dst.ptr(k))
			} else {
				in = append([]byte{}, pdata...)
				es = ewkb.ScannerPrefixSRID(dst.ptr(k))
			}
			if pv, st := h.Catch(func() { serr = es.Scan(in) }); pv != nil {
				fail("", "ewkb scanner panicked", map[string]interface{}{"dest": c01destNames[k], "framing": frameNames[fk], "panic": sv(pv), "stack": st})
				continue
			}
			c.Eval()
			c01judge(c, fail, "", "ewkb.Scanner", k, fk, ok, exp, serr, errors.Is(serr, ewkb.ErrIncorrectGeometry), es.Geometry, es.Valid, dst.val(k), es.SRID, srid)
			if ok && serr == nil {
				c01longRet[k].check(c)
			}
		}
	}
}

func c01judge(c *h.Ctx, fail func(string, string, interface{}), key, who string, k, fk int, ok bool, exp orb.Geometry, serr error, isIncorrect bool, sg orb.Geometry, valid bool, dv orb.Geometry, gotSRID, wantSRID int) {
	ctx := func(extra interface{}) map[string]interface{} {
		return map[string]interface{}{"scanner": who, "dest": c01destNames[k], "framing": frameNames[fk], "detail": extra}
	}
	if !ok {
		if serr == nil || !isIncorrect {
			fail(key, who+": a kind mismatch is not reported as the incorrect-geometry error", ctx(sv(serr)))
		}
		return
	}
	if serr != nil {
		fail(key, who+": scanning into a compatible destination failed", ctx(serr.Error()))
		return
	}
	if !valid || !refmodel.EqualBits(sg, exp) {
		fail(key, who+": scanner.Geometry is not the documented coercion of the decoded value", ctx(map[string]interface{}{"got": sv(sg), "got_kind": refmodel.KindName(sg), "want": sv(exp), "valid": valid}))
		return
	}
	if k > 0 && !refmodel.EqualBits(dv, exp) {
		fail(key, who+": the typed destination does not hold the documented coercion of the decoded value", ctx(map[string]interface{}{"got": sv(dv), "want": sv(exp)}))
		return
	}
	if gotSRID != wantSRID {
		fail(key, who+": SRID differs from the one written", ctx(map[string]interface{}{"got": gotSRID, "want": wantSRID}))
	}
}
