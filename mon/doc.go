// Package mon holds one monitor per property (c01.go … c20.go); each registers itself with the harness.
package mon
