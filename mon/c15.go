package mon

import (
	"fmt"
	"math"

	"github.com/paulmach/orb"
	"github.com/paulmach/orb/encoding/mvt"
	"github.com/paulmach/orb/geojson"
	"github.com/paulmach/orb/maptile"
	"github.com/paulmach/orb/project"

	"verif/internal/gen"
	"verif/internal/h"
	"verif/internal/refmodel"
)

// C15 — projections invert each other and transform every vertex in place.

// refProject applies f to every vertex of a copy of g (a Bound becomes the box of its two projected corners).
func refProject(g orb.Geometry, f func(orb.Point) orb.Point) orb.Geometry {
	pts := func(ps []orb.Point) []orb.Point {
		if ps == nil {
			return nil
		}
		out := make([]orb.Point, len(ps))
		for i, p := range ps {
			out[i] = f(p)
		}
		return out
	}
	switch x := g.(type) {
	case nil:
		return nil
	case orb.Point:
		return f(x)
	case orb.MultiPoint:
		return orb.MultiPoint(pts(x))
	case orb.LineString:
		return orb.LineString(pts(x))
	case orb.Ring:
		return orb.Ring(pts(x))
	case orb.MultiLineString:
		if x == nil {
			return x
		}
		out := make(orb.MultiLineString, len(x))
		for i := range x {
			out[i] = pts(x[i])
		}
		return out
	case orb.Polygon:
		if x == nil {
			return x
		}
		out := make(orb.Polygon, len(x))
		for i := range x {
			out[i] = pts(x[i])
		}
		return out
	case orb.MultiPolygon:
		if x == nil {
			return x
		}
		out := make(orb.MultiPolygon, len(x))
		for i := range x {
			out[i] = refProject(x[i], f).(orb.Polygon)
		}
		return out
	case orb.Collection:
		if x == nil {
			return x
		}
		out := make(orb.Collection, len(x))
		for i := range x {
			out[i] = refProject(x[i], f)
		}
		return out
	case orb.Bound:
		a, b := f(x.Min), f(x.Max)
		return orb.Bound{Min: orb.Point{math.Min(a[0], b[0]), math.Min(a[1], b[1])}, Max: orb.Point{math.Max(a[0], b[0]), math.Max(a[1], b[1])}}
	}
	panic("refProject: unknown kind")
}

func c15pixels(c *h.Ctx, tile maptile.Tile, extent uint32, pts orb.MultiPoint, pow2 bool) (fails int) {
	f := geojson.NewFeature(pts.Clone())
	layer := &mvt.Layer{Name: "l", Version: 2, Extent: extent, Features: []*geojson.Feature{f}}
	layer.ProjectToWGS84(tile)
	mid := f.Geometry.(orb.MultiPoint).Clone()
	layer.ProjectToTile(tile)
	c.Evals(2 * len(pts))
	back := f.Geometry.(orb.MultiPoint)
	for i := range pts {
		if back[i] == pts[i] {
			continue
		}
		fails++
		key := ""
		if s := math.Abs(math.Sin(mid[i][1] * math.Pi / 180)); s > 0.9999 {
			key = "C15/top-of-world-clamp"
		}
		what := "power-of-two extent"
		if !pow2 {
			what = "non-power-of-two extent"
		}
		c.Fail(key, "integer tile coordinates do not come back exactly after ProjectToWGS84 and ProjectToTile ("+what+")", map[string]interface{}{"tile": sv(tile), "extent": extent, "pixel": sv(pts[i]), "lonlat": sv(mid[i]), "back": sv(back[i])})
	}
	if fails == 0 && len(pts) >= 3 {
		// the same coordinates as the vertices of other kinds (a line, a closed ring in the order given and reversed, a polygon with
		// a hole), in layers of version 1 and 2: the same integers in the same order must come back
		if len(pts) > 48 {
			pts = pts[:48]
		}
		ring := append(orb.Ring(pts.Clone()), pts[0])
		rev := ring.Clone()
		rev.Reverse()
		for _, ver := range []uint32{1, 2} {
			for name, g := range map[string]orb.Geometry{"line string": orb.LineString(pts.Clone()), "polygon": orb.Polygon{ring.Clone()}, "polygon wound the other way": orb.Polygon{rev.Clone()},
				"polygon with a hole": orb.Polygon{ring.Clone(), rev.Clone()}, "multi polygon": orb.MultiPolygon{{rev.Clone()}, {ring.Clone()}}} {
				want := refmodel.Copy(g)
				ff := geojson.NewFeature(g)
				l2 := &mvt.Layer{Name: "l", Version: ver, Extent: extent, Features: []*geojson.Feature{ff}}
				l2.ProjectToWGS84(tile)
				l2.ProjectToTile(tile)
				if !refmodel.EqualBits(ff.Geometry, want) {
					fails++
					c.Fail("", "the tile coordinates of a "+name+" do not come back exactly, in order, after ProjectToWGS84 and ProjectToTile", map[string]interface{}{"tile": sv(tile), "extent": extent, "version": ver, "before": sv(want), "after": sv(ff.Geometry)})
				}
			}
		}
	}
	return fails
}

func c15tile(r *h.Rand, idx uint64) maptile.Tile {
	z := uint(idx % 23)
	m := uint64(1) << z
	t := maptile.Tile{X: uint32(r.Uint64() % m), Y: uint32(r.Uint64() % m), Z: maptile.Zoom(z)}
	switch r.Intn(6) {
	case 0:
		t.X, t.Y = 0, 0
	case 1:
		t.X, t.Y = uint32(m-1), uint32(m-1)
	case 2:
		t.X = 0
	case 3:
		t.Y = 0
	}
	return t
}

func init() {
	optsOrd := &gen.GeomOpts{Float: gen.FloatOrdinary, NilSlices: true, Empty: true, EmptyParts: true, RingBound: true, Huge: true}
	optsTiny := &gen.GeomOpts{Float: func(r *h.Rand) float64 { return float64(r.Intn(4)) }, Empty: true, EmptyParts: true, RingBound: true, MaxLen: 6}

	h.Register(&h.Monitor{
		ID: "C15",
		Rule: "lon/lat points with lon in [-180,180] and lat in [-85.05,85.05] and mercator points in the projected square through both projections and back; geometries from the full grammar through project.Geometry and the typed helpers with tagging, axis-reversing and counting point functions; integer tile coordinates (all edge values {-e,-1,0,e-1,e,2e-1}^2 plus random ones in [-e,2e)^2; thorough: every pixel of [-e,2e)^2 for e=256 on sampled tiles) on tiles at zoom 0..22 incl. the world's corner and edge tiles, extents 256..8192, and, separately, non-power-of-two extents. " +
			"non-trivial = every case (a point pair / a geometry with vertices / a tile with pixels); distinct = hash of the inputs",
		MinNontrivial: h.Fixed(5000, 200000),
		Assumptions: []string{
			"WGS84->Mercator->WGS84 within 1e-9 degrees; Mercator->WGS84->Mercator within 1 mm; tile pixels exactly",
			"the known finding covers exactly the pixels whose intermediate latitude satisfies |sin lat| > 0.9999 (mercator.ToPlanar clamps there), which only occurs at zoom <= 1",
		},
		Subs: []h.Sub{
			{
				Name: "mercator-inverse", Count: h.Fixed(100000, 100000000),
				Run: func(c *h.Ctx, idx uint64, r *h.Rand) {
					p := orb.Point{r.Uniform(-180, 180), r.Uniform(-85.05, 85.05)}
					switch r.Intn(8) {
					case 0:
						p = orb.Point{[]float64{-180, 180, 0}[r.Intn(3)], []float64{-85.05, 85.05, 0}[r.Intn(3)]}
					case 1:
						p = orb.Point{float64(r.Range(-180, 180)), float64(r.Range(-85, 85))}
					}
					m := project.WGS84.ToMercator(p)
					b := project.Mercator.ToWGS84(m)
					c.Evals(2)
					if !(math.Abs(b[0]-p[0]) <= 1e-9 && math.Abs(b[1]-p[1]) <= 1e-9) {
						c.Fail("", "WGS84 -> mercator -> WGS84 does not return to the start within 1e-9 degrees", map[string]interface{}{"point": sv(p), "mercator": sv(m), "back": sv(b)})
					}
					const half = 20037508.342789244
					q := orb.Point{r.Uniform(-half, half), r.Uniform(-half*0.99, half*0.99)}
					w := project.Mercator.ToWGS84(q)
					q2 := project.WGS84.ToMercator(w)
					c.Evals(2)
					if !(math.Abs(q2[0]-q[0]) <= 1e-3 && math.Abs(q2[1]-q[1]) <= 1e-3) {
						c.Fail("", "mercator -> WGS84 -> mercator does not return to the start within a millimetre", map[string]interface{}{"point": sv(q), "wgs84": sv(w), "back": sv(q2)})
					}
					c.Nontrivial(hashPts([]orb.Point{p, q}))
					c.Sample(map[string]interface{}{"lonlat": sv(p), "mercator": sv(m)})
				},
			},
			{
				Name: "project-geometry", Count: h.Fixed(10000, 5000000),
				Run: func(c *h.Ctx, idx uint64, r *h.Rand) {
					g := optsOrd.Geometry(r, r.Intn(5))
					if idx%3 == 0 {
						g = optsTiny.Geometry(r, r.Intn(4)) // tiny integer grid: the image of a vertex is often the next vertex
					}
					if idx%11 == 5 {
						// a bushy tree of collections: several sibling collections on a level, each holding further collections
						var tree func(depth int) orb.Collection
						tree = func(depth int) orb.Collection {
							var out orb.Collection
							for n := r.Range(1, 4); n > 0; n-- {
								switch {
								case depth > 0 && r.P(2, 3):
									out = append(out, tree(depth-1))
								case r.Bool():
									out = append(out, orb.Point{float64(r.Intn(9)), float64(r.Intn(9))})
								default:
									out = append(out, orb.LineString{{float64(r.Intn(9)), float64(r.Intn(9))}, {float64(r.Intn(9)), float64(r.Intn(9))}})
								}
							}
							return out
						}
						g = tree(r.Range(2, 4))
						c.Count("bushy_collection_trees", 1)
					}
					projs := []struct {
						name string
						f    func(orb.Point) orb.Point
					}{
						{"shift (x+1, y+1)", func(p orb.Point) orb.Point { return orb.Point{p[0] + 1, p[1] + 1} }},
						{"double (2x, 2y)", func(p orb.Point) orb.Point { return orb.Point{2 * p[0], 2 * p[1]} }},
						{"tag (x+1000, 3y)", func(p orb.Point) orb.Point { return orb.Point{p[0] + 1000, 3 * p[1]} }},
						{"axis reversing (-x, 100-y)", func(p orb.Point) orb.Point { return orb.Point{-p[0], 100 - p[1]} }},
						{"swap (y, x)", func(p orb.Point) orb.Point { return orb.Point{p[1], p[0]} }},
						{"rotate and scale (x-y, x+y)", func(p orb.Point) orb.Point { return orb.Point{p[0] - p[1], p[0] + p[1]} }},
						{"shear (x+2y, y)", func(p orb.Point) orb.Point { return orb.Point{p[0] + 2*p[1], p[1]} }},
					}
					pj := projs[r.Intn(len(projs))]
					want := refProject(g, pj.f)
					var seen []orb.Point
					counting := func(p orb.Point) orb.Point { seen = append(seen, p); return pj.f(p) }
					in := refmodel.Copy(g)
					var got orb.Geometry
					if pv, st := h.Catch(func() { got = project.Geometry(in, counting) }); pv != nil {
						c.Fail("", "project.Geometry panicked", map[string]interface{}{"geometry": sv(g), "kind": refmodel.KindName(g), "panic": sv(pv), "stack": st})
						return
					}
					c.Eval()
					d := map[string]interface{}{"kind": refmodel.KindName(g), "geometry": sv(g), "projection": pj.name}
					if !refmodel.EqualBits(got, want) {
						c.Fail("", "project.Geometry is not the point function applied to every vertex (same kind, nesting, order; bound = box of the two projected corners)", map[string]interface{}{"case": d, "got": sv(got), "got_kind": refmodel.KindName(got), "want": sv(want)})
					}
					// every vertex handed to the point function exactly once
					var verts []orb.Point
					refmodel.Walk(g, func(p orb.Point) { verts = append(verts, p) }, nil)
					cnt := map[orb.Point]int{}
					for _, p := range verts {
						cnt[p]++
					}
					for _, p := range seen {
						cnt[p]--
					}
					okOnce := len(seen) == len(verts)
					for _, n := range cnt {
						okOnce = okOnce && n == 0
					}
					if !okOnce {
						c.Fail("", "the point function is not applied to every vertex exactly once", map[string]interface{}{"case": d, "calls": len(seen), "vertices": len(verts)})
					}
					// typed helpers agree with the generic entry
					typed := func() orb.Geometry {
						cp := refmodel.Copy(g)
						switch x := cp.(type) {
						case orb.Point:
							return project.Point(x, pj.f)
						case orb.MultiPoint:
							return project.MultiPoint(x, pj.f)
						case orb.LineString:
							return project.LineString(x, pj.f)
						case orb.MultiLineString:
							return project.MultiLineString(x, pj.f)
						case orb.Ring:
							return project.Ring(x, pj.f)
						case orb.Polygon:
							return project.Polygon(x, pj.f)
						case orb.MultiPolygon:
							return project.MultiPolygon(x, pj.f)
						case orb.Collection:
							return project.Collection(x, pj.f)
						case orb.Bound:
							return project.Bound(x, pj.f)
						}
						return nil
					}
					var tg orb.Geometry
					if pv, st := h.Catch(func() { tg = typed() }); pv != nil {
						c.Fail("", "typed project helper panicked", map[string]interface{}{"case": d, "panic": sv(pv), "stack": st})
					} else if !refmodel.EqualBits(tg, want) {
						c.Fail("", "typed project helper differs from the reference map", map[string]interface{}{"case": d, "got": sv(tg), "want": sv(want)})
					}
					c.Eval()
					if len(verts) > 0 {
						c.Nontrivial(h.Mix(refmodel.Hash(g), h.HashString(pj.name)))
						c.Sample(d)
					}
				},
			},
			{
				Name: "tile-pixels-pow2", Count: h.Fixed(3000, 1000000),
				Run: func(c *h.Ctx, idx uint64, r *h.Rand) {
					tile := c15tile(r, idx)
					extent := uint32(256 << uint(r.Intn(6)))
					e := int(extent)
					var pts orb.MultiPoint
					edge := []int{-e, -1, 0, e - 1, e, 2*e - 1, e / 2}
					for _, x := range edge {
						for _, y := range edge {
							pts = append(pts, orb.Point{float64(x), float64(y)})
						}
					}
					for i := 0; i < 60; i++ {
						pts = append(pts, orb.Point{float64(r.Range(-e, 2*e-1)), float64(r.Range(-e, 2*e-1))})
					}
					c15pixels(c, tile, extent, pts, true)
					// a layer set with different extents through the Layers wrappers: every layer keeps its own extent
					e2 := uint32(256 << uint(r.Intn(6)))
					mk := func(e uint32) (*mvt.Layer, orb.MultiPoint) {
						var ps orb.MultiPoint
						for i := 0; i < 12; i++ {
							ps = append(ps, orb.Point{float64(r.Range(0, int(e)-1)), float64(r.Range(0, int(e)-1))})
						}
						return &mvt.Layer{Name: "l", Version: 2, Extent: e, Features: []*geojson.Feature{geojson.NewFeature(ps.Clone())}}, ps
					}
					la, pa := mk(extent)
					lb, pb := mk(e2)
					ls := mvt.Layers{la, lb}
					if tile.Z >= 2 {
						// a layer with more than one feature, features without a geometry among them (properties only; Marshal skips
						// them): every feature with a geometry is projected, the list of features stays as it is
						lc := &mvt.Layer{Name: "many", Version: 2, Extent: extent}
						var wantC []orb.Geometry
						for k := r.Range(2, 7); k > 0; k-- {
							var g orb.Geometry
							if !r.P(1, 3) {
								g = orb.MultiPoint{{float64(r.Range(0, int(extent)-1)), float64(r.Range(0, int(extent)-1))}, {float64(r.Range(0, int(extent)-1)), float64(r.Range(0, int(extent)-1))}}
								if r.Bool() {
									g = orb.LineString(g.(orb.MultiPoint))
								}
							}
							f := geojson.NewFeature(refmodel.Copy(g))
							f.Geometry = refmodel.Copy(g) // (NewFeature of a nil geometry: keep it nil)
							lc.Features = append(lc.Features, f)
							wantC = append(wantC, g)
						}
						before := append([]*geojson.Feature{}, lc.Features...)
						if r.Bool() {
							ls = append(ls, lc)
						} else {
							ls = mvt.Layers{lc, la, lb}
						}
						ls.ProjectToWGS84(tile)
						ls.ProjectToTile(tile)
						same := len(lc.Features) == len(before)
						for i := 0; same && i < len(before); i++ {
							same = lc.Features[i] == before[i] && refmodel.EqualBits(before[i].Geometry, wantC[i])
						}
						c.Count("layers_with_features_without_a_geometry", 1)
						if !same {
							var after []string
							for _, f := range lc.Features {
								after = append(after, sv(f.Geometry))
							}
							c.Fail("", "a layer of several features (some without a geometry) does not come back as it was after ProjectToWGS84 and ProjectToTile", map[string]interface{}{"tile": sv(tile), "extent": extent, "before": sv(wantC), "after": after})
						}
						c.Evals(2 * (len(pa) + len(pb)))
						if !refmodel.EqualValues(la.Features[0].Geometry, pa) || !refmodel.EqualValues(lb.Features[0].Geometry, pb) {
							c.Fail("", "integer tile coordinates do not come back exactly through Layers.ProjectToWGS84 / Layers.ProjectToTile with layers of different extents", map[string]interface{}{"tile": sv(tile), "extents": []uint32{extent, e2}, "first_layer": sv(pa), "first_back": sv(la.Features[0].Geometry), "second_layer": sv(pb), "second_back": sv(lb.Features[0].Geometry)})
						}
					}
					c.Nontrivial(h.Mix(uint64(tile.X), uint64(tile.Y), uint64(tile.Z), uint64(extent)))
					c.Sample(map[string]interface{}{"tile": sv(tile), "extent": extent, "pixels": len(pts)})
				},
			},
			{
				Name: "tile-pixels-every-pixel-e256", Count: h.Fixed(0, 200), Exhaustive: h.ThoroughOnly,
				Run: func(c *h.Ctx, idx uint64, r *h.Rand) {
					tile := c15tile(r, idx)
					pts := make(orb.MultiPoint, 0, 768*768)
					for y := -256; y < 512; y++ {
						for x := -256; x < 512; x++ {
							pts = append(pts, orb.Point{float64(x), float64(y)})
						}
					}
					c15pixels(c, tile, 256, pts, true)
					c.Nontrivial(h.Mix(uint64(tile.X), uint64(tile.Y), uint64(tile.Z), 256))
					c.Sample(map[string]interface{}{"tile": sv(tile), "extent": 256, "pixels": "every pixel of [-256,512)^2"})
				},
			},
			{
				Name: "tile-pixels-non-pow2", Count: h.Fixed(1500, 500000),
				Run: func(c *h.Ctx, idx uint64, r *h.Rand) {
					tile := c15tile(r, idx)
					extent := []uint32{100, 1000, 4095, 4097, 3000, 257, 500, 6000, 10, 3}[r.Intn(10)]
					e := int(extent)
					var pts orb.MultiPoint
					for _, x := range []int{-e, -1, 0, e - 1, e, 2*e - 1} {
						for _, y := range []int{-e, -1, 0, e - 1, e, 2*e - 1} {
							pts = append(pts, orb.Point{float64(x), float64(y)})
						}
					}
					for i := 0; i < 60; i++ {
						pts = append(pts, orb.Point{float64(r.Range(-e, 2*e-1)), float64(r.Range(-e, 2*e-1))})
					}
					n := c15pixels(c, tile, extent, pts, false)
					c.Count("non_pow2_pixels", int64(len(pts)))
					c.Count("non_pow2_pixel_failures", int64(n))
					c.Nontrivial(h.Mix(uint64(tile.X), uint64(tile.Y), uint64(tile.Z), uint64(extent)))
					c.Sample(map[string]interface{}{"tile": sv(tile), "extent": extent, "pixels": len(pts)})
				},
			},
		},
	})
	_ = fmt.Sprint
}
