//go:build verif
// +build verif

// Package fuzz holds the coverage-guided extension of the C05 monitor: Go's native fuzzer
// mutates the seed corpus under coverage feedback from the library; every input is judged by the
// same oracle as the deterministic workload (mon.C05Judge). Run by `./check C05 thorough` with a
// fixed execution count per family; anything found is reported with the input.
package fuzz

import (
	"testing"

	"verif/mon"
)

func run(f *testing.F, family string) {
	for _, s := range mon.C05Seeds(1)[family] {
		f.Add(s)
	}
	f.Fuzz(func(t *testing.T, in []byte) {
		if len(in) > 1<<16 {
			return
		}
		// the fuzz worker process has other allocating goroutines: allow 64 MiB of slack on the allocation bound
		if v := mon.C05Judge(family, in, 64<<20); len(v) > 0 {
			t.Fatalf("C05 violation (%s): %s", family, v[0])
		}
	})
}

func FuzzWKB(f *testing.F)  { run(f, "wkb") }
func FuzzWKT(f *testing.F)  { run(f, "wkt") }
func FuzzJSON(f *testing.F) { run(f, "json") }
func FuzzBSON(f *testing.F) { run(f, "bson") }
func FuzzMVT(f *testing.F)  { run(f, "mvt") }
