#!/bin/bash
# ./seedtest.sh <patch.diff> <id> [tier]  — apply a seeded change to /repo, run the check, undo the change.
# Used only while developing the checks; never part of a registered command.
patch=$1; id=$2; tier=${3:-quick}
cd /verif
if ! git -C /repo diff --quiet; then echo "/repo has uncommitted changes"; exit 2; fi
git -C /repo apply "$patch" || { echo "patch does not apply"; exit 2; }
./check "$id" "$tier" 2>&1 | cut -c1-400 | tail -${LINES_OUT:-12}
rc=${PIPESTATUS[0]}
git -C /repo checkout -- .
git -C /repo clean -fdq
echo "seedtest: check exit=$rc"
exit 0
