#!/usr/bin/env python3
"""Regenerates MANIFEST.json from the table below (one row per finished monitor)."""
import json, subprocess, os
root = os.path.dirname(os.path.dirname(os.path.abspath(__file__)))
BASE = "cd /repo && GOFLAGS=-mod=mod GOPROXY=off GOSUMDB=off GOTOOLCHAIN=local go test -mod=mod -json -vet=off -count=1 -timeout 25m ./..."
# id -> (technique, level text, level note, design ref)
CHECKS = {}
def add(id, technique, text, note):
    CHECKS[id] = dict(technique=technique, text=text, note=note)

exec(open(os.path.join(root, "tools", "checks_table.py")).read())

props = [json.loads(l) for l in open(os.path.join(root, "properties.jsonl"))]
hooks = subprocess.run(["git", "-C", "/repo", "log", "--format=%H %s"], capture_output=True, text=True).stdout.splitlines()
hook_commits = [l.split()[0] for l in hooks if l.split(" ", 1)[1].startswith("verif hooks")]
checks, na = [], []
for p in props:
    id = p["id"]
    if id in CHECKS:
        c = CHECKS[id]
        checks.append({
            "property_id": id,
            "quick_cmd": f"./check {id} quick",
            "thorough_cmd": f"./check {id} thorough",
            "evidence_file": f"/verif/evidence/{id}.json",
            "replay_cmd_template": f"./check {id} --replay {{path}}",
            "engine": "vrun+vmon",
            "level_claimed": {"category": "exploration", "text": c["text"], "design_ref": f"DESIGN.md section 3, {id}"},
            "level_note": c["note"],
            "technique": c["technique"],
        })
    else:
        na.append({"property_id": id, "reason": NOT_CLAIMED.get(id, "monitor not finished yet; not claimed (runtime monitoring does apply to it, see DESIGN.md)")})
m = {
    "version": 1,
    "setup_cmd": "./setup.sh",
    "hooks": {
        "guard": "verif",
        "enable": "go build -tags verif (the worker binary bin/vmon is rebuilt from /repo's working tree by every ./check invocation; replace github.com/paulmach/orb => /repo in /verif/go.mod)",
        "baseline_off_cmd": BASE,
        "source_commits": hook_commits,
        "add_only": True,
    },
    "engines": [{
        "name": "vrun+vmon", "path": "/verif/cmd/vrun, /verif/cmd/vmon, /verif/mon, /verif/internal",
        "serves_properties": sorted(CHECKS),
        "kind_free_text": "runtime monitoring: the real library, compiled from /repo with -tags verif, is driven in rlimited child workers by enumerated, generated and hostile workloads; independent oracles (exact rational geometry, reference models, structural comparers, closed forms) judge every call; panics, fatal deaths, CPU-budget overruns, allocation overruns and Go race detector reports are observed events",
    }],
    "checks": checks,
    "notes": "Every verdict is 'held on the executions explored', see evidence/<id>.json for what was observed. known_findings.json lists genuine defects recorded rather than repaired (KNOWN-FINDING lines) and the repaired ones (status fixed, suppress nothing).",
    "not_applicable": na,
}
json.dump(m, open(os.path.join(root, "MANIFEST.json"), "w"), indent=1)
print("checks:", len(checks), "not claimed:", len(na))
