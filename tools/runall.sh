#!/bin/bash
# tools/runall.sh [quick|thorough] [ids...] — runs every registered check on /repo's current tree, prints one line per check.
cd "$(dirname "$0")/.."
tier=${1:-quick}; shift
ids="$@"
[ -z "$ids" ] && ids=$(python3 -c "import json; print(' '.join(c['property_id'] for c in json.load(open('MANIFEST.json'))['checks']))")
rc=0
for id in $ids; do
  start=$(date +%s)
  out=$(./check $id $tier 2>&1); code=$?
  end=$(date +%s)
  echo "$id exit=$code $((end-start))s :: $(echo "$out" | grep -c '^KNOWN-FINDING') known, $(echo "$out" | grep -c '^VIOLATION') violation lines, $(echo "$out" | grep -c '^INCONCLUSIVE') inconclusive :: $(echo "$out" | head -1)"
  [ $code -ne 0 ] && { rc=1; echo "$out" | grep '^VIOLATION\|^INCONCLUSIVE\|BUILD' | head -5; }
done
exit $rc
