// Command mutate lists or applies token-level mutations of one Go source file (self-validation tool for the monitors:
// tools/mutation_run.py drives it; it is not part of any registered check).
//
//	mutate list  <file>            prints one line per mutation point: index, line, original token, replacement
//	mutate apply <file> <index>    prints the file with that one mutation applied
package main

import (
	"fmt"
	"go/scanner"
	"go/token"
	"os"
	"strconv"
)

type mut struct {
	off, end int
	line     int
	from, to string
}

func points(src []byte) []mut {
	fset := token.NewFileSet()
	f := fset.AddFile("x.go", fset.Base(), len(src))
	var s scanner.Scanner
	s.Init(f, src, nil, 0)
	swap := map[token.Token][]string{
		token.LSS: {"<=", ">"}, token.LEQ: {"<"}, token.GTR: {">=", "<"}, token.GEQ: {">"},
		token.EQL: {"!="}, token.NEQ: {"=="},
		token.ADD: {"-"}, token.SUB: {"+"}, token.MUL: {"/"}, token.QUO: {"*"},
		token.LAND: {"||"}, token.LOR: {"&&"},
		token.INC: {"--"}, token.DEC: {"++"},
		token.ADD_ASSIGN: {"-="}, token.SUB_ASSIGN: {"+="},
		token.NOT: {""},
		token.SHL: {">>"}, token.SHR: {"<<"},
	}
	var out []mut
	inImport := false
	depthParen := 0
	var prev token.Token
	for {
		pos, tok, lit := s.Scan()
		if tok == token.EOF {
			break
		}
		off := f.Offset(pos)
		line := f.Line(pos)
		if tok == token.IMPORT {
			inImport = true
			depthParen = 0
		}
		if inImport {
			if tok == token.LPAREN {
				depthParen++
			}
			if tok == token.RPAREN {
				depthParen--
				if depthParen == 0 {
					inImport = false
				}
			}
			if tok == token.STRING && depthParen == 0 {
				inImport = false
			}
			prev = tok
			continue
		}
		if reps, ok := swap[tok]; ok {
			n := len(tok.String())
			// (a '*' or '-' right after an operator, '(' , ',' or keyword is unary / a pointer type: most do not compile and are dropped later)
			for _, r := range reps {
				out = append(out, mut{off, off + n, line, tok.String(), r})
			}
		}
		switch tok {
		case token.INT:
			if v, err := strconv.ParseInt(lit, 0, 64); err == nil && prev != token.LBRACK {
				switch {
				case v == 0:
					out = append(out, mut{off, off + len(lit), line, lit, "1"})
				case v == 1:
					out = append(out, mut{off, off + len(lit), line, lit, "0"}, mut{off, off + len(lit), line, lit, "2"})
				default:
					out = append(out, mut{off, off + len(lit), line, lit, strconv.FormatInt(v+1, 10)}, mut{off, off + len(lit), line, lit, strconv.FormatInt(v-1, 10)})
				}
			}
		case token.IDENT:
			switch lit {
			case "true":
				out = append(out, mut{off, off + 4, line, lit, "false"})
			case "false":
				out = append(out, mut{off, off + 5, line, lit, "true"})
			}
		case token.BREAK:
			out = append(out, mut{off, off + 5, line, "break", "continue"})
		case token.CONTINUE:
			out = append(out, mut{off, off + 8, line, "continue", "break"})
		}
		prev = tok
	}
	return out
}

func main() {
	if len(os.Args) < 3 {
		fmt.Fprintln(os.Stderr, "usage: mutate list <file> | mutate apply <file> <index>")
		os.Exit(2)
	}
	src, err := os.ReadFile(os.Args[2])
	if err != nil {
		fmt.Fprintln(os.Stderr, err)
		os.Exit(2)
	}
	ps := points(src)
	switch os.Args[1] {
	case "list":
		for i, m := range ps {
			fmt.Printf("%d\t%d\t%q\t%q\n", i, m.line, m.from, m.to)
		}
	case "apply":
		i, _ := strconv.Atoi(os.Args[3])
		m := ps[i]
		os.Stdout.Write(src[:m.off])
		os.Stdout.WriteString(m.to)
		os.Stdout.Write(src[m.end:])
	}
}
