#!/usr/bin/env python3
"""Self-validation by mechanical mutation (development tool, not part of any registered check).
  mutation_run.py <slot> <nslots> <per_file> [seed]
Works in /tmp/mut/slot<slot>/{repo,verif} (git worktrees of /repo and /verif HEAD, created here, removed by the caller).
For every file a property is anchored in (properties.jsonl), <per_file> token-level mutants (tools/mutate) are drawn; each is
 1. compiled (go build ./...), 2. run through the repository's own test suite, and if it survives that,
 3. run through the quick check of every property anchored in the file (VERIF_REPO = the slot's copy).
One JSON line per mutant is appended to /tmp/mut/results-slot<slot>.jsonl."""
import json, os, random, subprocess, sys, collections
slot, nslots, per_file = int(sys.argv[1]), int(sys.argv[2]), int(sys.argv[3])
seed = int(sys.argv[4]) if len(sys.argv) > 4 else 1
base = f"/tmp/mut/slot{slot}"
repo, verif = base + "/repo", base + "/verif"
env = dict(os.environ, GOFLAGS="-mod=mod", GOPROXY="off", GOSUMDB="off", GOTOOLCHAIN="local", VERIF_REPO=repo)
os.makedirs(base, exist_ok=True)
if not os.path.exists(repo):
    subprocess.run(["git", "-C", "/repo", "worktree", "add", "-q", "--detach", repo, "HEAD"], check=True)
if not os.path.exists(verif):
    subprocess.run(["git", "-C", "/verif", "worktree", "add", "-q", "--detach", verif, "HEAD"], check=True)
subprocess.run(["go", "build", "-o", verif + "/bin/mutate", "./tools/mutate"], cwd=verif, env=env, check=True)
files = collections.defaultdict(list)
for l in open("/verif/properties.jsonl"):
    d = json.loads(l)
    for f in d["anchors"]["files"]:
        files[f].append(d["id"])
files["maptile/set.go"].append("C14")  # (the tile covers of collections are built with Set.Merge)
RECHECK = os.environ.get("MUT_RECHECK")  # a results file: run only the checks again on the mutants recorded there as survived
if RECHECK:
    want = collections.defaultdict(list)
    for l in open(RECHECK):
        r = json.loads(l)
        if r["outcome"] == "survived":
            want[r["file"]].append(r["index"])
out = open(f"/tmp/mut/results-slot{slot}.jsonl", "a")
done = set()
try:
    for l in open(f"/tmp/mut/results-slot{slot}.jsonl"):
        r = json.loads(l); done.add((r["file"], r["index"]))
except Exception:
    pass
def sh(cmd, cwd, timeout):
    try:
        p = subprocess.run(cmd, shell=True, cwd=cwd, env=env, capture_output=True, text=True, timeout=timeout)
        return p.returncode, p.stdout + p.stderr
    except subprocess.TimeoutExpired:
        return 124, "timeout"
for fi, f in enumerate(sorted(files)):
    if fi % nslots != slot:
        continue
    path = os.path.join(repo, f)
    pts = subprocess.run([verif + "/bin/mutate", "list", path], capture_output=True, text=True).stdout.splitlines()
    rnd = random.Random(f"{seed}:{f}")
    idxs = list(range(len(pts)))
    rnd.shuffle(idxs)
    if RECHECK:
        idxs = sorted(set(want.get(f, [])))
    taken = 0
    for i in idxs:
        if taken >= per_file and not RECHECK:
            break
        if (f, i) in done:
            taken += 1
            continue
        _, line, frm, to = pts[i].split("\t")
        orig = open(path, "rb").read()
        mutated = subprocess.run([verif + "/bin/mutate", "apply", path, str(i)], capture_output=True).stdout
        open(path, "wb").write(mutated)
        rec = {"file": f, "index": i, "line": int(line), "from": json.loads(frm), "to": json.loads(to), "properties": files[f]}
        try:
            rc, o = sh("go build ./...", repo, 300)
            if rc != 0:
                rec["outcome"] = "does not compile"
                continue  # (not counted: finally restores the file)
            taken += 1
            rc, o = (0, "") if RECHECK else sh("go test -vet=off -timeout 120s ./...", repo, 900)
            if rc != 0:
                rec["outcome"] = "killed by the repository's tests"
            else:
                rec["outcome"] = "survived"
                rec["checks"] = {}
                for prop in files[f]:
                    rc, o = sh(f"./check {prop} quick", verif, 3600)
                    viol = [x for x in o.splitlines() if x.startswith("VIOLATION")]
                    rec["checks"][prop] = {"exit": rc, "violations": len(viol), "first": (viol[0].split("#", 1)[-1].strip() if viol else "")}
                    if rc == 1 and viol:
                        rec["outcome"] = "detected by " + prop
                        break
                    if rc not in (0, 1):
                        rec["outcome"] = "check could not run"
                        rec["output"] = o[-600:]
                        break
        finally:
            open(path, "wb").write(orig)
            if rec.get("outcome") != "does not compile":
                out.write(json.dumps(rec) + "\n"); out.flush()
                print(slot, f, i, rec["line"], rec["from"], "->", rec["to"], ":", rec["outcome"], flush=True)
print("slot", slot, "done", flush=True)
