#!/usr/bin/env python3
"""Runs every seeded change under /verif/seeded/<id>-<v>/ through its property's check (quick, or the tier given)
by applying patch.diff to /repo, running ./check, and undoing the change. Writes seeded/results.json.
Development / self-validation tool: not part of any registered command."""
import glob, json, os, re, subprocess, sys
root = os.path.dirname(os.path.dirname(os.path.abspath(__file__)))
REPO = os.environ.get("VERIF_REPO", "/repo")  # (a scratch worktree for runs beside other work; ./check builds against it too)
tier = sys.argv[1] if len(sys.argv) > 1 else "quick"
only = sys.argv[2:]
if subprocess.run(["git", "-C", REPO, "diff", "--quiet"]).returncode != 0:
    sys.exit(REPO + " has uncommitted changes")
results = {}
rf = os.path.join(root, "seeded", "results.json")
if os.path.exists(rf):
    results = json.load(open(rf))
for d in sorted(glob.glob(os.path.join(root, "seeded", "C*-*"))):
    name = os.path.basename(d)
    if only and name not in only and name.split("-")[0] not in only:
        continue
    prop = name.split("-")[0]
    meta = json.load(open(os.path.join(d, "meta.json")))
    if meta.get("obsolete"):
        results[name] = {"property": prop, "obsolete": meta["obsolete"]}
        print(name, "obsolete (no longer breaks the property on the current tree)")
        continue
    beyond = meta.get("beyond_the_monitor")
    a = subprocess.run(["git", "-C", REPO, "apply", os.path.join(d, "patch.diff")], capture_output=True, text=True)
    if a.returncode != 0:
        results[name] = {"property": prop, "error": "patch does not apply: " + a.stderr.strip()}
        print(name, "PATCH DOES NOT APPLY")
        continue
    try:
        p = subprocess.run(["./check", prop, tier], cwd=root, capture_output=True, text=True)
    finally:
        subprocess.run(["git", "-C", REPO, "checkout", "--", "."])
        subprocess.run(["git", "-C", REPO, "clean", "-fdq"])
    viol = [l for l in p.stdout.splitlines() if l.startswith("VIOLATION")]
    results[name] = {"property": prop, "tier": tier, "exit": p.returncode, "detected": p.returncode == 1 and len(viol) > 0,
                     "violation_lines": len(viol), "first_violations": sorted(set(re.sub(r".*#\s*", "", l) for l in viol))[:4]}
    if beyond:
        results[name]["beyond_the_monitor"] = beyond
    print(name, "detected" if results[name]["detected"] else ("not detected (beyond the monitor, see meta.json)" if beyond else "MISSED"), results[name]["first_violations"][:1])
json.dump(results, open(rf, "w"), indent=1, sort_keys=True)
missed = [k for k, v in results.items() if not v.get("detected") and not v.get("obsolete") and not v.get("beyond_the_monitor")]
beyond = [k for k, v in results.items() if not v.get("detected") and v.get("beyond_the_monitor")]
print("not detected and recorded as beyond the monitor:", beyond)
print("seeded changes:", len(results), "missed:", missed)
