#!/usr/bin/env python3
"""Runs every stored legitimate change under /verif/benign/<id>-<v>/ (a patch after which the property still holds, written
by an independent sub-agent) through the property's check and through the check of every property anchored in a file the
patch touches: all of them must stay silent (exit 0, no VIOLATION line). Applies patch.diff to /repo, runs ./check, undoes
the change. Writes benign/results.json. Development / self-validation tool: not part of any registered command."""
import glob, json, os, re, subprocess, sys, collections
root = os.path.dirname(os.path.dirname(os.path.abspath(__file__)))
tier = sys.argv[1] if len(sys.argv) > 1 else "quick"
only = sys.argv[2:]
if subprocess.run(["git", "-C", "/repo", "diff", "--quiet"]).returncode != 0:
    sys.exit("/repo has uncommitted changes")
anch = collections.defaultdict(list)
for l in open(os.path.join(root, "properties.jsonl")):
    d = json.loads(l)
    for f in d["anchors"]["files"]:
        anch[f].append(d["id"])
rf = os.path.join(root, "benign", "results.json")
results = json.load(open(rf)) if os.path.exists(rf) else {}
for d in sorted(glob.glob(os.path.join(root, "benign", "C*-*"))):
    name = os.path.basename(d)
    if only and name not in only and name.split("-")[0] not in only:
        continue
    prop = name.split("-")[0]
    patch = open(os.path.join(d, "patch.diff")).read()
    props = [prop]
    for f in re.findall(r"^\+\+\+ b/(\S+)", patch, re.M):
        for p in anch.get(f, []):
            if p not in props:
                props.append(p)
    if os.environ.get("BENIGN_ALL"):  # every property's check, not only those anchored in the touched files
        props = props + [p for p in sorted({q for v in anch.values() for q in v}) if p not in props]
    a = subprocess.run(["git", "-C", "/repo", "apply", os.path.join(d, "patch.diff")], capture_output=True, text=True)
    if a.returncode != 0:
        results[name] = {"error": "patch does not apply: " + a.stderr.strip()}
        print(name, "PATCH DOES NOT APPLY")
        continue
    res = {}
    try:
        for p in props:
            r = subprocess.run(["./check", p, tier], cwd=root, capture_output=True, text=True)
            viol = [l for l in r.stdout.splitlines() if l.startswith("VIOLATION")]
            res[p] = {"exit": r.returncode, "violation_lines": len(viol), "first_violations": sorted(set(re.sub(r".*#\s*", "", l) for l in viol))[:3]}
    finally:
        subprocess.run(["git", "-C", "/repo", "checkout", "--", "."])
        subprocess.run(["git", "-C", "/repo", "clean", "-fdq"])
    meta = json.load(open(os.path.join(d, "meta.json")))
    other = (meta.get("breaks_another_property") or {}).get("property")
    silent = all(v["exit"] == 0 and v["violation_lines"] == 0 for q, v in res.items() if q != other)
    results[name] = {"tier": tier, "checks": res, "silent": silent}
    if other:
        results[name]["breaks_another_property"] = other
        results[name]["detected_there"] = res.get(other, {}).get("exit") == 1
    print(name, "silent" if silent else "ALARM", ("(breaks %s, detected there: %s)" % (other, results[name]["detected_there"])) if other else "", {p: v["first_violations"] for p, v in res.items() if v["violation_lines"]})
json.dump(results, open(rf, "w"), indent=1, sort_keys=True)
print("benign changes:", len(results), "alarms:", [k for k, v in results.items() if not v.get("silent")])
