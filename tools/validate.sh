#!/bin/bash
# validates MANIFEST.json and evidence/*.json against the schemas in /root/.vp
cd "$(dirname "$0")/.."
python3-vt - <<'PY'
import json, jsonschema, glob
jsonschema.validate(json.load(open('MANIFEST.json')), json.load(open('/root/.vp/MANIFEST.schema.json')))
es = json.load(open('/root/.vp/EVIDENCE.schema.json'))
for f in sorted(glob.glob('evidence/*.json')):
    jsonschema.validate(json.load(open(f)), es)
    print('ok', f)
print('MANIFEST ok')
PY
