#!/bin/bash
# Offline build of the framework (warms the Go build cache, including the -race flavour).
cd "$(dirname "$0")" || exit 2
export GOFLAGS=-mod=mod GOPROXY=off GOSUMDB=off GOTOOLCHAIN=local
set -e
mkdir -p bin evidence replays
go build -o bin/vrun ./cmd/vrun
go build -tags verif -o bin/vmon ./cmd/vmon
go build -tags verif -race -o bin/vmon-race ./cmd/vmon
echo setup ok
