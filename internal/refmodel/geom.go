// Package refmodel holds reference models that are independent of the library:
// structural comparison, deep copy, normalisation, bounds, vertex walks.
package refmodel

import (
	"fmt"
	"math"

	"github.com/paulmach/orb"

	"verif/internal/h"
)

func eqPts(a, b []orb.Point) bool {
	if len(a) != len(b) {
		return false
	}
	for i := range a {
		if math.Float64bits(a[i][0]) != math.Float64bits(b[i][0]) || math.Float64bits(a[i][1]) != math.Float64bits(b[i][1]) {
			return false
		}
	}
	return true
}

// EqualBits: same kind, same nesting, same lengths, bit-identical coordinates.
// nil and empty slices are both "length 0". A nil interface equals only a nil interface.
func EqualBits(a, b orb.Geometry) bool {
	if a == nil || b == nil {
		return a == nil && b == nil
	}
	switch x := a.(type) {
	case orb.Point:
		y, ok := b.(orb.Point)
		return ok && eqPts([]orb.Point{x}, []orb.Point{y})
	case orb.MultiPoint:
		y, ok := b.(orb.MultiPoint)
		return ok && eqPts(x, y)
	case orb.LineString:
		y, ok := b.(orb.LineString)
		return ok && eqPts(x, y)
	case orb.Ring:
		y, ok := b.(orb.Ring)
		return ok && eqPts(x, y)
	case orb.MultiLineString:
		y, ok := b.(orb.MultiLineString)
		if !ok || len(x) != len(y) {
			return false
		}
		for i := range x {
			if !eqPts(x[i], y[i]) {
				return false
			}
		}
		return true
	case orb.Polygon:
		y, ok := b.(orb.Polygon)
		if !ok || len(x) != len(y) {
			return false
		}
		for i := range x {
			if !eqPts(x[i], y[i]) {
				return false
			}
		}
		return true
	case orb.MultiPolygon:
		y, ok := b.(orb.MultiPolygon)
		if !ok || len(x) != len(y) {
			return false
		}
		for i := range x {
			if !EqualBits(x[i], y[i]) {
				return false
			}
		}
		return true
	case orb.Collection:
		y, ok := b.(orb.Collection)
		if !ok || len(x) != len(y) {
			return false
		}
		for i := range x {
			if !EqualBits(x[i], y[i]) {
				return false
			}
		}
		return true
	case orb.Bound:
		y, ok := b.(orb.Bound)
		return ok && eqPts([]orb.Point{x.Min, x.Max}, []orb.Point{y.Min, y.Max})
	}
	return false
}

// EqualValues is EqualBits with == on coordinates instead of bit identity (so -0 == 0, NaN != NaN):
// the relation orb.Equal is documented to implement.
func EqualValues(a, b orb.Geometry) bool {
	if a == nil || b == nil {
		return a == nil && b == nil
	}
	if KindName(a) != KindName(b) {
		return false
	}
	var pa, pb []orb.Point
	var sa, sb []int
	Walk(a, func(p orb.Point) { pa = append(pa, p) }, func(n int) { sa = append(sa, n) })
	Walk(b, func(p orb.Point) { pb = append(pb, p) }, func(n int) { sb = append(sb, n) })
	if len(pa) != len(pb) || len(sa) != len(sb) {
		return false
	}
	for i := range sa {
		if sa[i] != sb[i] {
			return false
		}
	}
	for i := range pa {
		if pa[i] != pb[i] {
			return false
		}
	}
	return true
}

// Walk visits every vertex in order and reports every slice length (and a kind code for collection members).
func Walk(g orb.Geometry, pt func(orb.Point), shape func(int)) {
	if shape == nil {
		shape = func(int) {}
	}
	if pt == nil {
		pt = func(orb.Point) {}
	}
	pts := func(ps []orb.Point) {
		shape(len(ps))
		for _, p := range ps {
			pt(p)
		}
	}
	switch x := g.(type) {
	case nil:
		shape(-1)
	case orb.Point:
		pt(x)
	case orb.MultiPoint:
		pts(x)
	case orb.LineString:
		pts(x)
	case orb.Ring:
		pts(x)
	case orb.MultiLineString:
		shape(len(x))
		for _, l := range x {
			pts(l)
		}
	case orb.Polygon:
		shape(len(x))
		for _, l := range x {
			pts(l)
		}
	case orb.MultiPolygon:
		shape(len(x))
		for _, p := range x {
			shape(len(p))
			for _, l := range p {
				pts(l)
			}
		}
	case orb.Collection:
		shape(len(x))
		for _, m := range x {
			shape(1000 + kindCode(m))
			Walk(m, pt, shape)
		}
	case orb.Bound:
		pt(x.Min)
		pt(x.Max)
	}
}

func kindCode(g orb.Geometry) int {
	switch g.(type) {
	case orb.Point:
		return 0
	case orb.MultiPoint:
		return 1
	case orb.LineString:
		return 2
	case orb.MultiLineString:
		return 3
	case orb.Ring:
		return 4
	case orb.Polygon:
		return 5
	case orb.MultiPolygon:
		return 6
	case orb.Collection:
		return 7
	case orb.Bound:
		return 8
	}
	return 9
}

func KindName(g orb.Geometry) string {
	if g == nil {
		return "nil"
	}
	return fmt.Sprintf("%T", g)
}

// NumVertices counts vertices (a Bound counts 2).
func NumVertices(g orb.Geometry) int {
	n := 0
	Walk(g, func(orb.Point) { n++ }, nil)
	return n
}

// Hash of kind, shape and coordinate bits.
func Hash(g orb.Geometry) uint64 {
	hh := h.HashString(KindName(g))
	Walk(g, func(p orb.Point) { hh = h.Mix(hh, math.Float64bits(p[0]), math.Float64bits(p[1])) }, func(n int) { hh = h.Mix(hh, uint64(n)+77) })
	return hh
}

func copyPts(ps []orb.Point) []orb.Point {
	if ps == nil {
		return nil
	}
	out := make([]orb.Point, len(ps))
	copy(out, ps)
	return out
}

// Copy is a deep copy that preserves nil-ness of every slice (unlike orb.Clone for nil members before c18fa89).
func Copy(g orb.Geometry) orb.Geometry {
	switch x := g.(type) {
	case nil:
		return nil
	case orb.Point:
		return x
	case orb.MultiPoint:
		return orb.MultiPoint(copyPts(x))
	case orb.LineString:
		return orb.LineString(copyPts(x))
	case orb.Ring:
		return orb.Ring(copyPts(x))
	case orb.MultiLineString:
		if x == nil {
			return x
		}
		out := make(orb.MultiLineString, len(x))
		for i := range x {
			out[i] = copyPts(x[i])
		}
		return out
	case orb.Polygon:
		if x == nil {
			return x
		}
		out := make(orb.Polygon, len(x))
		for i := range x {
			out[i] = copyPts(x[i])
		}
		return out
	case orb.MultiPolygon:
		if x == nil {
			return x
		}
		out := make(orb.MultiPolygon, len(x))
		for i := range x {
			out[i] = Copy(x[i]).(orb.Polygon)
		}
		return out
	case orb.Collection:
		if x == nil {
			return x
		}
		out := make(orb.Collection, len(x))
		for i := range x {
			out[i] = Copy(x[i])
		}
		return out
	case orb.Bound:
		return x
	}
	panic("refmodel.Copy: unknown kind")
}

// BoundRing is the ring a bound denotes, written out from Min and Max (not through the library's own ToRing):
// Min, (Max.x, Min.y), Max, (Min.x, Max.y), Min - counter-clockwise for a bound with Min <= Max.
func BoundRing(b orb.Bound) orb.Ring {
	return orb.Ring{b.Min, {b.Max[0], b.Min[1]}, b.Max, {b.Min[0], b.Max[1]}, b.Min}
}

// Norm maps a geometry to what the codecs denote: Ring -> Polygon{ring}, Bound -> its polygon, recursively in collections.
func Norm(g orb.Geometry) orb.Geometry {
	switch x := g.(type) {
	case orb.Ring:
		return orb.Polygon{x}
	case orb.Bound:
		return orb.Polygon{BoundRing(x)}
	case orb.Collection:
		if x == nil {
			return x
		}
		out := make(orb.Collection, len(x))
		for i := range x {
			out[i] = Norm(x[i])
		}
		return out
	}
	return g
}

// Bound is the reference bounding box: min/max over the vertices that count
// (outer rings only for polygons), ok=false when there are none.
func Bound(g orb.Geometry) (b orb.Bound, ok bool) {
	first := true
	add := func(p orb.Point) {
		if first {
			b = orb.Bound{Min: p, Max: p}
			first = false
			return
		}
		b.Min[0], b.Min[1] = math.Min(b.Min[0], p[0]), math.Min(b.Min[1], p[1])
		b.Max[0], b.Max[1] = math.Max(b.Max[0], p[0]), math.Max(b.Max[1], p[1])
	}
	var rec func(g orb.Geometry)
	rec = func(g orb.Geometry) {
		switch x := g.(type) {
		case orb.Point:
			add(x)
		case orb.MultiPoint:
			for _, p := range x {
				add(p)
			}
		case orb.LineString:
			for _, p := range x {
				add(p)
			}
		case orb.Ring:
			for _, p := range x {
				add(p)
			}
		case orb.MultiLineString:
			for _, l := range x {
				for _, p := range l {
					add(p)
				}
			}
		case orb.Polygon:
			if len(x) > 0 {
				for _, p := range x[0] {
					add(p)
				}
			}
		case orb.MultiPolygon:
			for _, pg := range x {
				if len(pg) > 0 {
					for _, p := range pg[0] {
						add(p)
					}
				}
			}
		case orb.Collection:
			for _, m := range x {
				rec(m)
			}
		case orb.Bound:
			// a bound is its own box (also when it is not "proper")
			if !x.IsEmpty() {
				add(x.Min)
				add(x.Max)
			}
		}
	}
	rec(g)
	return b, !first
}
