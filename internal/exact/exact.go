// Package exact holds the exact-arithmetic oracles: float64 values are dyadic
// rationals, so predicates on them can be decided exactly with math/big. A
// floating-point filter answers the clear cases fast; big.Rat decides the rest.
package exact

import (
	"math"
	"math/big"
)

type P = [2]float64

// nice reports whether v is a multiple of 2^-10 with |v| < 2^15; sums, differences
// and pairwise products of such values are exact in float64.
func nice(v float64) bool {
	w := v * 1024
	return w == math.Trunc(w) && math.Abs(w) < 1<<25
}

func rat(f float64) *big.Rat {
	r := new(big.Rat)
	r.SetFloat64(f)
	return r
}

// R converts a finite float64 to the rational it denotes.
func R(f float64) *big.Rat { return rat(f) }

// Orient returns the sign of cross(b-a, c-a): +1 if a,b,c turn counter-clockwise.
func Orient(a, b, c P) int {
	l := (b[0] - a[0]) * (c[1] - a[1])
	r := (b[1] - a[1]) * (c[0] - a[0])
	det := l - r
	if nice(a[0]) && nice(a[1]) && nice(b[0]) && nice(b[1]) && nice(c[0]) && nice(c[1]) {
		// small dyadic coordinates: differences and products are exact in float64
		if det > 0 {
			return 1
		} else if det < 0 {
			return -1
		}
		return 0
	}
	bound := 1e-14 * (math.Abs(l) + math.Abs(r))
	if det > bound {
		return 1
	}
	if det < -bound {
		return -1
	}
	// exact
	ax, ay := rat(a[0]), rat(a[1])
	x1 := new(big.Rat).Sub(rat(b[0]), ax)
	y1 := new(big.Rat).Sub(rat(c[1]), ay)
	x2 := new(big.Rat).Sub(rat(b[1]), ay)
	y2 := new(big.Rat).Sub(rat(c[0]), ax)
	x1.Mul(x1, y1)
	x2.Mul(x2, y2)
	return x1.Cmp(x2)
}

// OnSegment reports whether p lies on the closed segment ab (exactly).
func OnSegment(a, b, p P) bool {
	if p[0] < math.Min(a[0], b[0]) || p[0] > math.Max(a[0], b[0]) ||
		p[1] < math.Min(a[1], b[1]) || p[1] > math.Max(a[1], b[1]) {
		return false
	}
	return Orient(a, b, p) == 0
}

// Locate returns (inside, onBoundary) of p relative to the implicitly closed
// vertex list under the even-odd rule, exactly.
func Locate(ring []P, p P) (inside, on bool) {
	n := len(ring)
	if n == 0 {
		return false, false
	}
	if n == 1 {
		return false, ring[0] == p
	}
	cross := 0
	for i := 0; i < n; i++ {
		a, b := ring[i], ring[(i+1)%n]
		if i == n-1 && ring[n-1] == ring[0] {
			break // explicit closing vertex, segment is degenerate
		}
		if OnSegment(a, b, p) {
			return false, true
		}
		// half-open rule on y: count edge if it straddles the horizontal ray's line
		if (a[1] > p[1]) != (b[1] > p[1]) {
			// is the crossing to the right of p ?
			// orientation of (a,b,p) tells the side once the edge is directed upward
			o := 0
			if a[1] < b[1] {
				o = Orient(a, b, p)
			} else {
				o = Orient(b, a, p)
			}
			if o > 0 { // p is to the left of the upward edge => crossing is to the right
				cross++
			}
		}
	}
	return cross%2 == 1, false
}

// Area2 is twice the signed shoelace area of the implicitly closed vertex list (exact).
func Area2(ring []P) *big.Rat {
	s := new(big.Rat)
	n := len(ring)
	t := new(big.Rat)
	u := new(big.Rat)
	for i := 0; i < n; i++ {
		a, b := ring[i], ring[(i+1)%n]
		t.Mul(rat(a[0]), rat(b[1]))
		u.Mul(rat(b[0]), rat(a[1]))
		t.Sub(t, u)
		s.Add(s, t)
	}
	return s
}

// SegsIntersect reports whether closed segments ab and cd share at least one point.
func SegsIntersect(a, b, c, d P) bool {
	if math.Max(a[0], b[0]) < math.Min(c[0], d[0]) || math.Max(c[0], d[0]) < math.Min(a[0], b[0]) ||
		math.Max(a[1], b[1]) < math.Min(c[1], d[1]) || math.Max(c[1], d[1]) < math.Min(a[1], b[1]) {
		return false
	}
	o1, o2 := Orient(a, b, c), Orient(a, b, d)
	o3, o4 := Orient(c, d, a), Orient(c, d, b)
	if o1*o2 < 0 && o3*o4 < 0 {
		return true
	}
	if o1 == 0 && OnSegment(a, b, c) {
		return true
	}
	if o2 == 0 && OnSegment(a, b, d) {
		return true
	}
	if o3 == 0 && OnSegment(c, d, a) {
		return true
	}
	if o4 == 0 && OnSegment(c, d, b) {
		return true
	}
	return false
}

// IsSimpleRing decides exactly whether the closed vertex list (first == last or
// implicitly closed) is a simple polygon: at least 3 distinct vertices, no
// repeated vertex, non-adjacent edges disjoint, adjacent edges meeting only in
// their shared vertex, non-zero area.
func IsSimpleRing(ring []P) bool {
	n := len(ring)
	if n > 1 && ring[0] == ring[n-1] {
		ring = ring[:n-1]
		n--
	}
	if n < 3 {
		return false
	}
	for i := 0; i < n; i++ {
		for j := i + 1; j < n; j++ {
			if ring[i] == ring[j] {
				return false
			}
		}
	}
	for i := 0; i < n; i++ {
		a, b := ring[i], ring[(i+1)%n]
		// adjacent edge: must not fold back
		c := ring[(i+2)%n]
		if Orient(a, b, c) == 0 && (OnSegment(a, b, c) || OnSegment(b, c, a)) {
			return false
		}
		for j := i + 2; j < n; j++ {
			if i == 0 && j == n-1 {
				continue // adjacent through the closing
			}
			if SegsIntersect(a, b, ring[j], ring[(j+1)%n]) {
				return false
			}
		}
	}
	return Area2(ring).Sign() != 0
}

// Dist2PointSeg is the exact squared distance from p to the closed segment ab.
func Dist2PointSeg(p, a, b P) *big.Rat {
	px, py := rat(p[0]), rat(p[1])
	ax, ay := rat(a[0]), rat(a[1])
	bx, by := rat(b[0]), rat(b[1])
	dx := new(big.Rat).Sub(bx, ax)
	dy := new(big.Rat).Sub(by, ay)
	wx := new(big.Rat).Sub(px, ax)
	wy := new(big.Rat).Sub(py, ay)
	l2 := new(big.Rat).Add(new(big.Rat).Mul(dx, dx), new(big.Rat).Mul(dy, dy))
	if l2.Sign() == 0 {
		return new(big.Rat).Add(new(big.Rat).Mul(wx, wx), new(big.Rat).Mul(wy, wy))
	}
	t := new(big.Rat).Add(new(big.Rat).Mul(wx, dx), new(big.Rat).Mul(wy, dy))
	t.Quo(t, l2)
	if t.Sign() < 0 {
		t.SetInt64(0)
	} else if t.Cmp(big.NewRat(1, 1)) > 0 {
		t.SetInt64(1)
	}
	cx := new(big.Rat).Sub(wx, new(big.Rat).Mul(t, dx))
	cy := new(big.Rat).Sub(wy, new(big.Rat).Mul(t, dy))
	return cx.Add(cx.Mul(cx, cx), cy.Mul(cy, cy))
}

// SqrtRat returns sqrt(r) as a float64 computed at 200 bits.
func SqrtRat(r *big.Rat) float64 {
	if r.Sign() <= 0 {
		return 0
	}
	f := new(big.Float).SetPrec(200).SetRat(r)
	f.Sqrt(f)
	v, _ := f.Float64()
	return v
}

// F converts a rational to the nearest float64.
func F(r *big.Rat) float64 {
	f, _ := r.Float64()
	return f
}

// DistToPolyline returns the float distance from p to the polyline (min over segments).
func DistToPolyline(p P, line []P, closed bool) float64 {
	best := math.Inf(1)
	n := len(line)
	if n == 1 {
		return math.Hypot(p[0]-line[0][0], p[1]-line[0][1])
	}
	m := n - 1
	if closed {
		m = n
	}
	for i := 0; i < m; i++ {
		d := fdistSeg(p, line[i], line[(i+1)%n])
		if d < best {
			best = d
		}
	}
	return best
}

func fdistSeg(p, a, b P) float64 {
	dx, dy := b[0]-a[0], b[1]-a[1]
	l2 := dx*dx + dy*dy
	if l2 == 0 {
		return math.Hypot(p[0]-a[0], p[1]-a[1])
	}
	t := ((p[0]-a[0])*dx + (p[1]-a[1])*dy) / l2
	if t < 0 {
		t = 0
	} else if t > 1 {
		t = 1
	}
	return math.Hypot(p[0]-(a[0]+t*dx), p[1]-(a[1]+t*dy))
}
