// Package h is the worker-side harness shared by all monitors.
//
// A monitor is a list of sub-checks. Each sub-check is a numbered list of
// cases; case idx of sub-check s is generated from a PRNG stream derived from
// (VERIF_SEED, property, s, idx) only, so any case can be re-run alone (replay)
// and the verdict does not depend on how the cases are spread over workers.
package h

import (
	"encoding/binary"
	"encoding/json"
	"fmt"
	"os"
	"path/filepath"
	"runtime"
	"runtime/debug"
	"sort"
	"strings"
	"syscall"
)

// Sub is one sub-check of a monitor.
type Sub struct {
	Name string
	// Count returns the number of cases of this sub-check in the tier.
	Count func(tier string) uint64
	// Run executes case idx. r is the case's private PRNG stream.
	Run func(c *Ctx, idx uint64, r *Rand)
	// Exhaustive reports whether the tier enumerates the sub-check's finite space completely.
	Exhaustive func(tier string) bool
	// BudgetSec is the CPU budget of one case (seconds of process CPU time); 0 = 20.
	BudgetSec int
	// BudgetSecThorough, if not 0, replaces BudgetSec in the thorough tier (whose cases may be larger).
	BudgetSecThorough int
	// Serial sub-checks run all their cases in shard 0 (they use all cores themselves).
	Serial bool
}

// Monitor is the set of sub-checks deciding one property.
type Monitor struct {
	ID   string
	Rule string // how cases are generated and what makes one non-trivial / distinct
	Subs []Sub
	// MinNontrivial: a run with fewer distinct non-trivial cases is inconclusive.
	MinNontrivial func(tier string) uint64
	Assumptions   []string
	Race          bool // needs the -race build
}

var registry = map[string]*Monitor{}

func Register(m *Monitor) { registry[m.ID] = m }
func Lookup(id string) *Monitor {
	return registry[id]
}
func IDs() []string {
	var ids []string
	for id := range registry {
		ids = append(ids, id)
	}
	sort.Strings(ids)
	return ids
}

func Fixed(q, t uint64) func(string) uint64 {
	return func(tier string) uint64 {
		if tier == "thorough" {
			return t
		}
		return q
	}
}

func Always(string) bool { return true }
func ThoroughOnly(tier string) bool {
	return tier == "thorough"
}

// Viol is one observed violation.
type Viol struct {
	Prop   string      `json:"property"`
	Sub    string      `json:"sub"`
	Idx    uint64      `json:"idx"`
	Seed   uint64      `json:"seed"`
	Tier   string      `json:"tier"`
	Key    string      `json:"key,omitempty"` // known-finding classifier key, "" = unclassified
	Msg    string      `json:"msg"`
	Detail interface{} `json:"detail,omitempty"`
}

type subStat struct {
	Cases      uint64 `json:"cases"`
	Evals      uint64 `json:"evaluations"`
	Nontrivial uint64 `json:"nontrivial_marks"`
}

// Summary is what a worker reports when it finishes its part.
type Summary struct {
	Prop       string                       `json:"property"`
	Shard      int                          `json:"shard"`
	Done       bool                         `json:"done"`
	Evals      uint64                       `json:"evaluations"`
	Counts     map[string]int64             `json:"counts"`
	Maxes      map[string]float64           `json:"maxes"`
	MaxDetail  map[string]string            `json:"max_detail"`
	Samples    map[string][]json.RawMessage `json:"samples"`
	ViolCounts map[string]int64             `json:"viol_counts"`
	Subs       map[string]*subStat          `json:"subs"`
	HashesFull bool                         `json:"hashes_truncated"`
}

const maxHashes = 1 << 20
const maxViolPerKey = 40

// Ctx is the per-worker context handed to every case.
type Ctx struct {
	Prop    string
	Tier    string
	Seed    uint64
	Shard   int
	NShards int
	Replay  bool

	mon     *Monitor
	sub     *Sub
	subI    int
	idx     uint64
	sum     Summary
	cur     *subStat
	hashes  []uint64
	hashSet map[uint64]struct{}
	prog    []byte
	violF   *os.File
	outDir  string
	part    int
}

func (c *Ctx) Quick() bool    { return c.Tier != "thorough" }
func (c *Ctx) Thorough() bool { return c.Tier == "thorough" }

// Eval counts library calls judged by an oracle.
func (c *Ctx) Eval() { c.sum.Evals++; c.cur.Evals++ }
func (c *Ctx) Evals(n int) {
	c.sum.Evals += uint64(n)
	c.cur.Evals += uint64(n)
}

// Nontrivial marks the current case as non-trivial; hash identifies its content.
func (c *Ctx) Nontrivial(hash uint64) {
	c.cur.Nontrivial++
	if _, ok := c.hashSet[hash]; ok {
		return
	}
	if len(c.hashSet) >= maxHashes {
		c.sum.HashesFull = true
		return
	}
	c.hashSet[hash] = struct{}{}
}

// CaseHash is a hash identifying the current case by position (for exhaustive spaces).
func (c *Ctx) CaseHash() uint64 {
	return Mix(HashString(c.Prop), HashString(c.sub.Name), c.idx)
}

func (c *Ctx) Count(name string, n int64) { c.sum.Counts[name] += n }
func (c *Ctx) Max(name string, v float64, detail func() string) {
	if old, ok := c.sum.Maxes[name]; !ok || v > old {
		c.sum.Maxes[name] = v
		if detail != nil {
			c.sum.MaxDetail[name] = detail()
		}
	}
}

// WantSample reports whether a sample of the current sub-check would be kept.
func (c *Ctx) WantSample() bool { return len(c.sum.Samples[c.sub.Name]) < 2 }

// Sample records an actual case for the evidence file.
func (c *Ctx) Sample(v interface{}) {
	if !c.WantSample() {
		return
	}
	b, err := json.Marshal(map[string]interface{}{"sub": c.sub.Name, "idx": c.idx, "case": v})
	if err != nil {
		b, _ = json.Marshal(map[string]interface{}{"sub": c.sub.Name, "idx": c.idx, "case": fmt.Sprintf("%+v", v)})
	}
	c.sum.Samples[c.sub.Name] = append(c.sum.Samples[c.sub.Name], b)
}

// Fail records a violation for the current case. key is "" for an unclassified
// violation, or the key of the known-finding class the monitor recognised.
func (c *Ctx) Fail(key, msg string, detail interface{}) {
	k := key
	if k == "" {
		k = "_unclassified:" + c.sub.Name
	}
	c.sum.ViolCounts[k]++
	if c.sum.ViolCounts[k] > maxViolPerKey {
		return
	}
	v := Viol{Prop: c.Prop, Sub: c.sub.Name, Idx: c.idx, Seed: c.Seed, Tier: c.Tier, Key: key, Msg: msg, Detail: detail}
	b, err := json.Marshal(v)
	if err != nil {
		v.Detail = fmt.Sprintf("%+v", detail)
		b, _ = json.Marshal(v)
	}
	c.violF.Write(append(b, '\n'))
	if c.Replay {
		fmt.Printf("violation: key=%q %s\n%s\n", key, msg, indent(detail))
	}
}

func indent(v interface{}) string {
	b, err := json.MarshalIndent(v, "  ", "  ")
	if err != nil {
		return fmt.Sprintf("%+v", v)
	}
	return string(b)
}

// Failf is Fail with a formatted message and no detail.
func (c *Ctx) Failf(key, format string, a ...interface{}) {
	c.Fail(key, fmt.Sprintf(format, a...), nil)
}

// Catch runs f and returns the recovered panic value and stack, or nil.
func Catch(f func()) (pv interface{}, stack string) {
	defer func() {
		if r := recover(); r != nil {
			pv = r
			stack = trimStack(string(debug.Stack()))
		}
	}()
	f()
	return nil, ""
}

func trimStack(s string) string {
	lines := strings.Split(s, "\n")
	if len(lines) > 40 {
		lines = lines[:40]
	}
	return strings.Join(lines, "\n")
}

// InnermostFrame returns the first non-runtime function name of a debug.Stack dump
// taken inside a deferred recover.
func InnermostFrame(stack string) string {
	lines := strings.Split(stack, "\n")
	seenPanic := false
	for _, l := range lines {
		if strings.HasPrefix(l, "\t") || strings.HasPrefix(l, "goroutine ") || l == "" {
			continue
		}
		if strings.HasPrefix(l, "panic(") {
			seenPanic = true
			continue
		}
		if !seenPanic {
			continue
		}
		if strings.HasPrefix(l, "runtime.") || strings.HasPrefix(l, "runtime/") {
			continue
		}
		return l
	}
	return ""
}

// Mark tells the parent which case is about to run (progress file).
func (c *Ctx) mark(subI int, idx uint64, budget int) {
	if c.prog == nil {
		return
	}
	binary.LittleEndian.PutUint64(c.prog[16:], idx)
	binary.LittleEndian.PutUint32(c.prog[8:], uint32(subI))
	binary.LittleEndian.PutUint32(c.prog[24:], uint32(budget))
	binary.LittleEndian.PutUint64(c.prog[32:], c.sum.Evals)
	binary.LittleEndian.PutUint64(c.prog[0:], binary.LittleEndian.Uint64(c.prog[0:])+1)
}

// Note writes a short free-form description of the input about to be handed to the
// library into the progress file, so a fatal crash can be attributed (hostile inputs).
func (c *Ctx) Note(b []byte) {
	if c.prog == nil {
		if c.Replay {
			fmt.Printf("input: %s\n", b)
		}
		return
	}
	n := len(b)
	if n > len(c.prog)-72 {
		n = len(c.prog) - 72
	}
	binary.LittleEndian.PutUint32(c.prog[64:], uint32(n))
	copy(c.prog[72:], b[:n])
}

// WorkerArgs configures one worker run.
type WorkerArgs struct {
	Prop      string
	Tier      string
	Seed      uint64
	Shard     int
	NShards   int
	OutDir    string
	Part      int
	ResumeSub int // resume after (ResumeSub, ResumeIdx); -1 = from the start
	ResumeIdx uint64
	ReplaySub string // non-empty: run only this case
	ReplayIdx uint64
}

// RunWorker runs the worker's share of the monitor and writes its result files.
var procsList = []int{1, 2, 3, 4, 5, 6, 7, 8, 12, 16}
var procsNames = func() map[int]string {
	m := map[int]string{}
	for _, p := range procsList {
		m[p] = fmt.Sprintf("cases_run_with_GOMAXPROCS_%d", p)
	}
	return m
}()
var curProcs = -1

func RunWorker(a WorkerArgs) error {
	m := Lookup(a.Prop)
	if m == nil {
		return fmt.Errorf("unknown property %q", a.Prop)
	}
	c := &Ctx{Prop: a.Prop, Tier: a.Tier, Seed: a.Seed, Shard: a.Shard, NShards: a.NShards, mon: m, outDir: a.OutDir, part: a.Part}
	c.sum = Summary{Prop: a.Prop, Shard: a.Shard, Counts: map[string]int64{}, Maxes: map[string]float64{}, MaxDetail: map[string]string{},
		Samples: map[string][]json.RawMessage{}, ViolCounts: map[string]int64{}, Subs: map[string]*subStat{}}
	c.hashSet = make(map[uint64]struct{}, 1024)
	c.Replay = a.ReplaySub != ""

	base := filepath.Join(a.OutDir, fmt.Sprintf("shard-%d.part%d", a.Shard, a.Part))
	var err error
	c.violF, err = os.OpenFile(base+".viol.jsonl", os.O_CREATE|os.O_WRONLY|os.O_APPEND, 0644)
	if err != nil {
		return err
	}
	defer c.violF.Close()

	if !c.Replay {
		pf, err := os.OpenFile(filepath.Join(a.OutDir, fmt.Sprintf("shard-%d.progress", a.Shard)), os.O_CREATE|os.O_RDWR, 0644)
		if err != nil {
			return err
		}
		const progSize = 1 << 20
		if err := pf.Truncate(progSize); err != nil {
			return err
		}
		c.prog, err = syscall.Mmap(int(pf.Fd()), 0, progSize, syscall.PROT_READ|syscall.PROT_WRITE, syscall.MAP_SHARED)
		pf.Close()
		if err != nil {
			return err
		}
	}

	if a.Shard == 0 && a.Part == 0 && !c.Replay {
		writeMeta(a.OutDir, m, a.Tier)
	}

	for si := range m.Subs {
		sub := &m.Subs[si]
		if c.Replay && sub.Name != a.ReplaySub {
			continue
		}
		if !c.Replay && a.ResumeSub > si {
			continue
		}
		c.sub, c.subI = sub, si
		st := c.sum.Subs[sub.Name]
		if st == nil {
			st = &subStat{}
			c.sum.Subs[sub.Name] = st
		}
		c.cur = st
		n := sub.Count(a.Tier)
		budget := sub.BudgetSec
		if a.Tier == "thorough" && sub.BudgetSecThorough != 0 {
			budget = sub.BudgetSecThorough
		}
		if budget == 0 {
			budget = 20
		}
		start, step := uint64(a.Shard), uint64(a.NShards)
		if sub.Serial {
			if a.Shard != 0 {
				continue
			}
			start, step = 0, 1
		}
		if c.Replay {
			start, step, n = a.ReplayIdx, 1, a.ReplayIdx+1
		}
		for idx := start; idx < n; idx += step {
			if !c.Replay && a.ResumeSub == si && idx <= a.ResumeIdx {
				continue
			}
			c.idx = idx
			c.mark(si, idx, budget)
			st.Cases++
			if !m.Race {
				// the number of CPUs the library may use is part of the configuration: a function of the case index
				// (blocks of 32), so a replay runs under the same value
				want := procsList[Mix(a.Seed, HashString(a.Prop), idx/32)%uint64(len(procsList))]
				if want != curProcs {
					runtime.GOMAXPROCS(want)
					curProcs = want
				}
				c.sum.Counts[procsNames[want]]++
			}
			r := NewRand(Mix(a.Seed, HashString(a.Prop), HashString(sub.Name), idx))
			if pv, stack := Catch(func() { sub.Run(c, idx, r) }); pv != nil {
				c.Fail("", fmt.Sprintf("panic escaped the case: %v", pv), map[string]interface{}{"stack": stack})
			}
		}
	}

	c.sum.Done = true
	// distinct hashes, sorted
	c.hashes = make([]uint64, 0, len(c.hashSet))
	for h := range c.hashSet {
		c.hashes = append(c.hashes, h)
	}
	sort.Slice(c.hashes, func(i, j int) bool { return c.hashes[i] < c.hashes[j] })
	hb := make([]byte, 8*len(c.hashes))
	for i, h := range c.hashes {
		binary.LittleEndian.PutUint64(hb[8*i:], h)
	}
	if err := os.WriteFile(base+".hashes", hb, 0644); err != nil {
		return err
	}
	sb, err := json.Marshal(&c.sum)
	if err != nil {
		return err
	}
	if err := os.WriteFile(base+".summary.json", sb, 0644); err != nil {
		return err
	}
	if c.Replay {
		n := int64(0)
		for _, v := range c.sum.ViolCounts {
			n += v
		}
		fmt.Printf("replay %s %s/%d seed=%d: %d evaluations, %d violation(s)\n", a.Prop, a.ReplaySub, a.ReplayIdx, a.Seed, c.sum.Evals, n)
	}
	return nil
}

// Meta is static information about a monitor, written by shard 0 for the runner.
type Meta struct {
	ID            string            `json:"id"`
	Rule          string            `json:"rule"`
	Assumptions   []string          `json:"assumptions"`
	MinNontrivial uint64            `json:"min_nontrivial"`
	Subs          []MetaSub         `json:"subs"`
	SubIndex      map[string]int    `json:"-"`
	Extra         map[string]string `json:"extra,omitempty"`
}

type MetaSub struct {
	Name       string `json:"name"`
	Cases      uint64 `json:"cases"`
	Exhaustive bool   `json:"exhaustive"`
	BudgetSec  int    `json:"budget_s"`
}

func writeMeta(dir string, m *Monitor, tier string) {
	meta := Meta{ID: m.ID, Rule: m.Rule, Assumptions: m.Assumptions}
	if m.MinNontrivial != nil {
		meta.MinNontrivial = m.MinNontrivial(tier)
	}
	for _, s := range m.Subs {
		ex := false
		if s.Exhaustive != nil {
			ex = s.Exhaustive(tier)
		}
		b := s.BudgetSec
		if tier == "thorough" && s.BudgetSecThorough != 0 {
			b = s.BudgetSecThorough
		}
		if b == 0 {
			b = 20
		}
		meta.Subs = append(meta.Subs, MetaSub{Name: s.Name, Cases: s.Count(tier), Exhaustive: ex, BudgetSec: b})
	}
	b, _ := json.Marshal(&meta)
	os.WriteFile(filepath.Join(dir, "meta.json"), b, 0644)
}
