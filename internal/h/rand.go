package h

import "math"

// Rand is a small deterministic PRNG (splitmix64). Every case gets its own
// stream derived from (seed, property, sub-check, case index), so a case can
// be regenerated from those four values alone.
type Rand struct{ s uint64 }

func mix64(z uint64) uint64 {
	z += 0x9e3779b97f4a7c15
	z = (z ^ (z >> 30)) * 0xbf58476d1ce4e5b9
	z = (z ^ (z >> 27)) * 0x94d049bb133111eb
	return z ^ (z >> 31)
}

// HashString is FNV-1a.
func HashString(s string) uint64 {
	h := uint64(14695981039346656037)
	for i := 0; i < len(s); i++ {
		h ^= uint64(s[i])
		h *= 1099511628211
	}
	return h
}

func HashBytes(b []byte) uint64 {
	h := uint64(14695981039346656037)
	for i := 0; i < len(b); i++ {
		h ^= uint64(b[i])
		h *= 1099511628211
	}
	return h
}

// Mix combines hashes.
func Mix(a uint64, bs ...uint64) uint64 {
	for _, b := range bs {
		a = mix64(a ^ mix64(b))
	}
	return a
}

func HashFloats(fs ...float64) uint64 {
	h := uint64(0x1234567)
	for _, f := range fs {
		h = mix64(h ^ math.Float64bits(f))
	}
	return h
}

func NewRand(seed uint64) *Rand { return &Rand{s: mix64(seed)} }

func (r *Rand) Uint64() uint64 {
	r.s += 0x9e3779b97f4a7c15
	z := r.s
	z = (z ^ (z >> 30)) * 0xbf58476d1ce4e5b9
	z = (z ^ (z >> 27)) * 0x94d049bb133111eb
	return z ^ (z >> 31)
}

// Intn returns a value in [0,n). n must be > 0.
func (r *Rand) Intn(n int) int {
	if n <= 0 {
		panic("Intn: n <= 0")
	}
	return int(r.Uint64() % uint64(n))
}

// Range returns a value in [lo,hi] inclusive.
func (r *Rand) Range(lo, hi int) int { return lo + r.Intn(hi-lo+1) }

func (r *Rand) Bool() bool { return r.Uint64()&1 == 1 }

// P returns true with probability num/den.
func (r *Rand) P(num, den int) bool { return r.Intn(den) < num }

// Float64 in [0,1).
func (r *Rand) Float64() float64 { return float64(r.Uint64()>>11) / (1 << 53) }

// Uniform in [lo,hi).
func (r *Rand) Uniform(lo, hi float64) float64 { return lo + (hi-lo)*r.Float64() }

// Geom returns a geometric-ish small number in [0,max] with mean about m.
func (r *Rand) Geom(m float64, max int) int {
	p := 1 / (m + 1)
	n := 0
	for n < max && r.Float64() > p {
		n++
	}
	return n
}

func (r *Rand) Perm(n int) []int {
	p := make([]int, n)
	for i := range p {
		p[i] = i
	}
	for i := n - 1; i > 0; i-- {
		j := r.Intn(i + 1)
		p[i], p[j] = p[j], p[i]
	}
	return p
}

func (r *Rand) Norm() float64 {
	// Box-Muller
	u1 := r.Float64()
	if u1 < 1e-300 {
		u1 = 1e-300
	}
	u2 := r.Float64()
	return math.Sqrt(-2*math.Log(u1)) * math.Cos(2*math.Pi*u2)
}
