package gen

import (
	"math"

	"github.com/paulmach/orb"

	"verif/internal/h"
)

// hostile and boundary float64 values
var FloatCorpus = func() []float64 {
	fs := []float64{
		0, math.Copysign(0, -1), 1, -1, 0.5, 2, 10, 100, 1234.5678, 1e-4, 9.99999e-5, 1e21, 9.99999e20, 1e-7, 1e22, 1e100, 1e-100, 1e308, 1e-308, 1e-320,
		math.SmallestNonzeroFloat64, -math.SmallestNonzeroFloat64, math.Float64frombits(0x000fffffffffffff), -math.Float64frombits(0x000fffffffffffff),
		math.Float64frombits(0x0010000000000000), -math.Float64frombits(0x0010000000000000),
		math.MaxFloat64, -math.MaxFloat64, math.Nextafter(1, 2), math.Nextafter(1, 0), 1 << 53, 1<<53 + 2, 1<<53 - 1, -(1 << 53),
		0.1, 0.2, 0.30000000000000004, 1.0 / 3, 179.99999999999997, -180, 180, 90, -90, 85.05112877980659,
		123456789.12345679, 8.01242669544805e+42, 4.9e-324, 2.2250738585072014e-308, 1.7976931348623157e308,
	}
	for e := -320; e <= 308; e += 17 {
		fs = append(fs, math.Pow(10, float64(e)))
	}
	return fs
}()

var nonFinite = []float64{math.Inf(1), math.Inf(-1), math.NaN(), math.Float64frombits(0x7ff8000000000001), math.Float64frombits(0x7ff0000000000001), math.Float64frombits(0xfff8000000abcdef), math.Float64frombits(0x7fffffffffffffff)}

// FloatAll draws from all float64 bit patterns (corpus, non-finite values, random bits, ordinary values).
func FloatAll(r *h.Rand) float64 {
	switch r.Intn(10) {
	case 0, 1:
		return FloatCorpus[r.Intn(len(FloatCorpus))]
	case 2:
		return nonFinite[r.Intn(len(nonFinite))]
	case 3, 4:
		return math.Float64frombits(r.Uint64())
	case 5:
		return float64(r.Range(-1000, 1000))
	default:
		return r.Uniform(-180, 180)
	}
}

// FloatFinite draws finite values over the full float64 range.
func FloatFinite(r *h.Rand) float64 {
	for {
		var f float64
		switch r.Intn(10) {
		case 0, 1:
			f = FloatCorpus[r.Intn(len(FloatCorpus))]
		case 2, 3:
			f = math.Float64frombits(r.Uint64())
		case 4:
			f = float64(r.Range(-1000, 1000))
		case 5:
			f = r.Uniform(-1, 1) * math.Pow(10, float64(r.Range(-30, 30)))
		default:
			f = r.Uniform(-180, 180)
		}
		if !math.IsNaN(f) && !math.IsInf(f, 0) {
			return f
		}
	}
}

// FloatOrdinary draws map-like coordinates.
func FloatOrdinary(r *h.Rand) float64 {
	if r.P(1, 5) {
		return float64(r.Range(-100, 100))
	}
	return r.Uniform(-180, 180)
}

// GeomOpts steers the geometry grammar.
type GeomOpts struct {
	Depth         int                   // maximum nesting of collections below this level
	Float         func(*h.Rand) float64 // coordinate source
	NilSlices     bool                  // values and members may be nil slices
	Empty         bool                  // values and members may be empty (non-nil) slices
	EmptyParts    bool                  // zero-vertex rings/lines inside a non-empty polygon / multi line string / multi polygon
	RingBound     bool                  // include orb.Ring and orb.Bound
	MaxLen        int                   // maximum number of elements per slice level (default 4)
	ClosedRing    bool                  // rings are closed (first == last) and have >= 4 vertices
	Huge          bool                  // rarely (1 in 300 slice levels) a level has hundreds of elements
	SharedMembers bool                  // a collection member is sometimes the very same value as an earlier member (for read-only functions)
}

var hugeSizes = []int{127, 128, 129, 255, 256, 257, 258, 511, 512, 513, 1023, 1024, 1025}

func (o *GeomOpts) n(r *h.Rand, min int) int {
	m := o.MaxLen
	if m == 0 {
		m = 4
	}
	if o.Empty && min == 0 && r.P(1, 6) {
		return 0
	}
	if min == 0 {
		min = 1
	}
	if o.Huge && r.P(1, 300) {
		return hugeSizes[r.Intn(len(hugeSizes))]
	}
	if r.P(1, 30) {
		return min + r.Intn(40)
	}
	return min + r.Geom(1.2, m)
}

func (o *GeomOpts) pt(r *h.Rand) orb.Point { return orb.Point{o.Float(r), o.Float(r)} }

func (o *GeomOpts) pts(r *h.Rand, min int) []orb.Point {
	if o.NilSlices && r.P(1, 12) {
		return nil
	}
	n := o.n(r, min)
	out := make([]orb.Point, n)
	for i := range out {
		out[i] = o.pt(r)
	}
	return out
}

func (o *GeomOpts) ring(r *h.Rand) orb.Ring {
	if o.ClosedRing {
		n := 3 + r.Geom(1.5, 8)
		out := make(orb.Ring, n, n+1)
		for i := range out {
			out[i] = o.pt(r)
		}
		return append(out, out[0])
	}
	min := 1
	if o.EmptyParts {
		min = 0
	}
	ps := o.pts(r, min)
	if ps == nil && !o.EmptyParts {
		ps = []orb.Point{o.pt(r)}
	}
	return orb.Ring(ps)
}

func (o *GeomOpts) polygon(r *h.Rand) orb.Polygon {
	if o.NilSlices && r.P(1, 12) {
		return nil
	}
	n := o.n(r, 0)
	out := make(orb.Polygon, n)
	for i := range out {
		out[i] = o.ring(r)
	}
	return out
}

// Kind indices: 0 Point 1 MultiPoint 2 LineString 3 MultiLineString 4 Ring 5 Polygon 6 MultiPolygon 7 Collection 8 Bound
func (o *GeomOpts) OfKind(r *h.Rand, kind int, depth int) orb.Geometry {
	switch kind {
	case 0:
		return o.pt(r)
	case 1:
		return orb.MultiPoint(o.pts(r, 0))
	case 2:
		return orb.LineString(o.pts(r, 0))
	case 3:
		if o.NilSlices && r.P(1, 12) {
			return orb.MultiLineString(nil)
		}
		n := o.n(r, 0)
		out := make(orb.MultiLineString, n)
		for i := range out {
			min := 1
			if o.EmptyParts {
				min = 0
			}
			ps := o.pts(r, min)
			if ps == nil && !o.EmptyParts {
				ps = []orb.Point{o.pt(r)}
			}
			out[i] = ps
		}
		return out
	case 4:
		if o.ClosedRing {
			return o.ring(r)
		}
		return orb.Ring(o.pts(r, 0))
	case 5:
		return o.polygon(r)
	case 6:
		if o.NilSlices && r.P(1, 12) {
			return orb.MultiPolygon(nil)
		}
		n := o.n(r, 0)
		out := make(orb.MultiPolygon, n)
		for i := range out {
			out[i] = o.polygon(r)
			if out[i] == nil && !o.EmptyParts {
				out[i] = orb.Polygon{o.ring(r)}
			}
			if len(out[i]) == 0 && !o.EmptyParts {
				out[i] = orb.Polygon{o.ring(r)}
			}
		}
		return out
	case 7:
		if o.NilSlices && r.P(1, 12) {
			return orb.Collection(nil)
		}
		n := o.n(r, 0)
		out := make(orb.Collection, n)
		for i := range out {
			out[i] = o.Geometry(r, depth-1)
			if o.SharedMembers && i > 0 && r.P(1, 8) {
				out[i] = out[r.Intn(i)] // the very same value (same backing memory) as an earlier member
			}
		}
		return out
	default:
		a, b := o.pt(r), o.pt(r)
		return orb.Bound{Min: a, Max: b}
	}
}

// Geometry draws a geometry of a random kind; collections nest down to depth 0.
func (o *GeomOpts) Geometry(r *h.Rand, depth int) orb.Geometry {
	for {
		k := r.Intn(9)
		if k == 7 && depth <= 0 {
			continue
		}
		if (k == 4 || k == 8) && !o.RingBound {
			continue
		}
		return o.OfKind(r, k, depth)
	}
}

var KindNames = []string{"Point", "MultiPoint", "LineString", "MultiLineString", "Ring", "Polygon", "MultiPolygon", "Collection", "Bound"}

func KindOf(g orb.Geometry) int {
	switch g.(type) {
	case orb.Point:
		return 0
	case orb.MultiPoint:
		return 1
	case orb.LineString:
		return 2
	case orb.MultiLineString:
		return 3
	case orb.Ring:
		return 4
	case orb.Polygon:
		return 5
	case orb.MultiPolygon:
		return 6
	case orb.Collection:
		return 7
	case orb.Bound:
		return 8
	}
	return -1
}
