// Package gen holds the seeded generators shared by the monitors.
package gen

import (
	"math"
	"sort"

	"verif/internal/exact"
	"verif/internal/h"
)

type P = exact.P

// GridList returns n points on the lattice {lo + k*step}, k = 0..cells, not closed.
func GridList(r *h.Rand, n int, lo, step float64, cells int) []P {
	out := make([]P, n)
	for i := range out {
		out[i] = P{lo + step*float64(r.Intn(cells+1)), lo + step*float64(r.Intn(cells+1))}
	}
	return out
}

// Close returns the vertex list with the first vertex repeated at the end.
func Close(ps []P) []P {
	if len(ps) == 0 {
		return ps
	}
	if len(ps) > 1 && ps[0] == ps[len(ps)-1] {
		return ps
	}
	return append(append([]P{}, ps...), ps[0])
}

// Star returns a star-shaped ring (not closed) of n vertices around (cx,cy) with
// radii in [rmin,rmax], counter-clockwise. The kernel point is strictly inside:
// the largest angular gap between consecutive vertices is < 0.9*pi. If snap > 0
// the vertices are rounded to multiples of snap (the result must then be
// validated with exact.IsSimpleRing by the caller).
func Star(r *h.Rand, n int, cx, cy, rmin, rmax, snap float64) []P {
	if n < 3 {
		n = 3
	}
	for {
		ang := make([]float64, n)
		for i := range ang {
			ang[i] = r.Float64() * 2 * math.Pi
		}
		sort.Float64s(ang)
		ok := true
		for i := range ang {
			gap := ang[(i+1)%n] - ang[i]
			if i == n-1 {
				gap += 2 * math.Pi
			}
			if gap > 0.9*math.Pi || gap < 1e-3 {
				ok = false
			}
		}
		if !ok {
			continue
		}
		out := make([]P, n)
		for i, a := range ang {
			rad := r.Uniform(rmin, rmax)
			x, y := cx+rad*math.Cos(a), cy+rad*math.Sin(a)
			if snap > 0 {
				x, y = math.Round(x/snap)*snap, math.Round(y/snap)*snap
			}
			out[i] = P{x, y}
		}
		return out
	}
}

// SimpleRing returns a simple ring (exact filter), closed, counter-clockwise, of
// 3..n vertices. Vertices are snapped to multiples of snap when snap > 0.
// It returns nil if no simple ring was found in 60 attempts (e.g. radius below the snap step).
func SimpleRing(r *h.Rand, n int, cx, cy, rmin, rmax, snap float64) []P {
	for try := 0; try < 60; try++ {
		k := n
		if try > 20 && k > 3 {
			k = 3 + r.Intn(k-2)
		}
		ring := Star(r, k, cx, cy, rmin, rmax, snap)
		if !exact.IsSimpleRing(ring) {
			continue
		}
		if exact.Area2(ring).Sign() < 0 {
			Reverse(ring)
		}
		return Close(ring)
	}
	return nil
}

func Reverse(ps []P) {
	for i, j := 0, len(ps)-1; i < j; i, j = i+1, j-1 {
		ps[i], ps[j] = ps[j], ps[i]
	}
}

// Reversed returns a reversed copy.
func Reversed(ps []P) []P {
	out := append([]P{}, ps...)
	Reverse(out)
	return out
}

// StrictlyInside reports whether the closed ring inner lies strictly inside outer
// (no vertex on or outside, no edge contact), decided exactly.
func StrictlyInside(inner, outer []P) bool {
	for _, p := range inner {
		in, on := exact.Locate(outer, p)
		if !in || on {
			return false
		}
	}
	ni, no := len(inner), len(outer)
	for i := 0; i+1 < ni || (i < ni && inner[0] != inner[ni-1]); i++ {
		a, b := inner[i], inner[(i+1)%ni]
		for j := 0; j < no; j++ {
			c, d := outer[j], outer[(j+1)%no]
			if exact.SegsIntersect(a, b, c, d) {
				return false
			}
		}
		if i+1 >= ni {
			break
		}
	}
	return true
}

// Disjoint reports whether two closed rings have no boundary contact and neither contains the other's vertices.
func Disjoint(a, b []P) bool {
	for i := 0; i+1 < len(a); i++ {
		for j := 0; j+1 < len(b); j++ {
			if exact.SegsIntersect(a[i], a[i+1], b[j], b[j+1]) {
				return false
			}
		}
	}
	if in, on := exact.Locate(b, a[0]); in || on {
		return false
	}
	if in, on := exact.Locate(a, b[0]); in || on {
		return false
	}
	return true
}

// PolygonWithHoles (nil if no simple outer ring could be made) returns a simple CCW outer ring and up to maxHoles CW holes that lie
// strictly inside it and are pairwise disjoint (all validated exactly). Rings are closed.
func PolygonWithHoles(r *h.Rand, n int, cx, cy, rmin, rmax, snap float64, maxHoles int) [][]P {
	var outer []P
	for try := 0; outer == nil; try++ {
		if try > 12 {
			return nil // e.g. radius below the snap step
		}
		outer = SimpleRing(r, n, cx, cy, rmin, rmax, snap)
		if n > 3 {
			n--
		}
	}
	rings := [][]P{outer}
	for k := 0; k < maxHoles; k++ {
		for try := 0; try < 8; try++ {
			// a small ring around a point inside the outer ring
			a := r.Float64() * 2 * math.Pi
			d := r.Uniform(0, rmin*0.5)
			hx, hy := cx+d*math.Cos(a), cy+d*math.Sin(a)
			hr := r.Uniform(math.Max(rmin*0.05, 1.5*snap), math.Max(rmin*0.45, 2.5*snap))
			hole := SimpleRing(r, r.Range(3, 6), hx, hy, hr*0.5, hr, snap)
			if hole == nil || !StrictlyInside(hole, outer) {
				continue
			}
			ok := true
			for _, other := range rings[1:] {
				if !Disjoint(hole, other) {
					ok = false
				}
			}
			if !ok {
				continue
			}
			Reverse(hole)
			rings = append(rings, hole)
			break
		}
	}
	return rings
}

// MustPolygonWithHoles is PolygonWithHoles with a plain triangle as fallback, so it never returns nil.
func MustPolygonWithHoles(r *h.Rand, n int, cx, cy, rmin, rmax, snap float64, maxHoles int) [][]P {
	if rings := PolygonWithHoles(r, n, cx, cy, rmin, rmax, snap, maxHoles); rings != nil {
		return rings
	}
	rd := math.Max(math.Ceil(rmax), 2)
	x, y := math.Round(cx), math.Round(cy)
	return [][]P{{{x - rd, y - rd}, {x + rd, y - rd}, {x, y + rd}, {x - rd, y - rd}}}
}
